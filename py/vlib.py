"""Shared machinery of the checks: building the harness from /repo's working tree, running TLC
(design / replay / trace configurations), replaying cases, classifying mismatches against the
committed known-findings file, writing evidence and replay files."""
import hashlib, json, os, re, subprocess, sys, time

VERIF = os.path.dirname(os.path.dirname(os.path.abspath(__file__)))
TLA = os.path.join(VERIF, "tla")
# Development aid only (bin/mutants --scratch): VERIF_REPO points the checks at a scratch copy of pacak/bpaf so that
# a seeded change can be tried without touching /repo; everything such a run writes goes to separate directories.
# The registered commands never set it: they build from /repo's working tree.
REPO = os.environ.get("VERIF_REPO") or "/repo"
ALT = REPO != "/repo"
_sfx = ("-alt-" + hashlib.sha256(REPO.encode()).hexdigest()[:8]) if ALT else ""
WORK = os.path.join(VERIF, "work" + _sfx)
CACHE = os.path.join(VERIF, "cache")
REPLAYS = os.path.join(VERIF, "replays" + _sfx)
EVIDENCE = os.path.join(VERIF, "evidence" + _sfx)
HARNESS_DIR = os.path.join(VERIF, "harness")


def crate_dir(src):
    """the crate to build: the committed one, or - for a scratch repository - a copy whose path dependency points there"""
    if not ALT:
        return src
    dst = os.path.join(WORK, "crates", os.path.basename(src))
    os.makedirs(dst, exist_ok=True)
    subprocess.run(["rsync", "-a", "--delete", "--exclude", "target*", src + "/", dst + "/"], check=True)
    for f in ("Cargo.toml",):
        t = open(os.path.join(src, f)).read().replace('path = "/repo"', f'path = "{REPO}"')
        t = t.replace('path = "../harness"', f'path = "{os.path.join(WORK, "crates", "harness")}"')
        open(os.path.join(dst, f), "w").write(t)
    return dst
SEED = int(os.environ.get("VERIF_SEED", "1") or 1)
TLC_WORKERS = int(os.environ.get("VERIF_TLC_WORKERS", "8"))


class ToolError(Exception):
    pass


def log(*a):
    print(*a, file=sys.stderr, flush=True)


def sh(cmd, **kw):
    return subprocess.run(cmd, shell=isinstance(cmd, str), text=True, capture_output=True, **kw)


def ensure_dirs():
    for d in (WORK, CACHE, REPLAYS, EVIDENCE):
        os.makedirs(d, exist_ok=True)


# ------------------------------------------------------------------ harness
FEATURE_SETS = {
    "default": ["autocomplete", "docgen", "batteries"],
    "none": [],
    "autocomplete": ["autocomplete"],
    "all": ["autocomplete", "docgen", "batteries", "derive"],
    "dull": ["dull-color"],
    "bright": ["bright-color"],
}


def build_harness(fset="default", bin_name="harness"):
    """(re)build the harness against /repo's current working tree with the hooks enabled"""
    feats = FEATURE_SETS[fset]
    hdir = crate_dir(HARNESS_DIR)
    tdir = os.path.join(hdir, "target" if fset == "default" else f"target-{fset}")
    cmd = ["cargo", "build", "--offline", "--quiet", "--no-default-features", "--target-dir", tdir,
           "--bin", bin_name]
    if feats:
        cmd += ["--features", ",".join(feats)]
    env = dict(os.environ, CARGO_NET_OFFLINE="true")
    t = time.time()
    r = subprocess.run(cmd, cwd=hdir, text=True, capture_output=True, env=env)
    if r.returncode != 0:
        errs = [l for l in r.stderr.splitlines() if l.startswith("error")]
        raise ToolError("harness build failed:\n" + r.stderr[-3000:] + "\n" + "\n".join(errs[:5]))
    log(f"[build] harness[{fset}] {time.time()-t:.1f}s")
    return os.path.join(tdir, "debug", bin_name)


# ------------------------------------------------------------------ TLC
def file_hash(*paths, extra=""):
    h = hashlib.sha256()
    for p in paths:
        with open(p, "rb") as f:
            h.update(f.read())
        h.update(b"\0")
    h.update(extra.encode())
    return h.hexdigest()[:16]


TLC_STATS = re.compile(r"(\d+) states generated, (\d+) distinct states found")


def run_tlc(module, cfg, env=None, out=None, workers=None, timeout=1800, extra_java="", simulate=None,
            deps=()):
    """run TLC on tla/<module>.tla with tla/<cfg>; returns dict(states, distinct, out, wall, ok)"""
    ensure_dirs()
    tag = f"{cfg.replace('.cfg','')}-{os.getpid()}-{int(time.time()*1000)%100000}"
    meta = os.path.join(WORK, "tlc-" + tag)
    out = out or os.path.join(WORK, tag + ".out")
    e = dict(os.environ)
    e.update(env or {})
    if extra_java:
        e["JAVA_TOOL_OPTIONS"] = extra_java
    cmd = ["timeout", str(timeout), "tlc", "-workers", str(workers or TLC_WORKERS), "-metadir", meta,
           "-cleanup", "-noGenerateSpecTE", "-config", cfg]
    if simulate:
        cmd += ["-simulate", simulate]
    cmd += [module + ".tla"]
    t = time.time()
    with open(out, "w") as f:
        r = subprocess.run(cmd, cwd=TLA, env=e, stdout=f, stderr=subprocess.STDOUT)
    wall = time.time() - t
    subprocess.run(["rm", "-rf", meta])
    states = distinct = 0
    tail = []
    err = False
    with open(out, errors="replace") as f:
        for l in f:
            if l.startswith('<<"REPLAY"'):
                continue
            tail.append(l)
            if len(tail) > 400:
                tail.pop(0)
            m = TLC_STATS.search(l)
            if m:
                states, distinct = int(m.group(1)), int(m.group(2))
            if l.startswith("Error:") or "is violated" in l:
                err = True
    ok = (r.returncode == 0) and not err
    if r.returncode == 124:
        raise ToolError(f"TLC timed out after {timeout}s on {module}/{cfg}")
    return {"states": states, "distinct": distinct, "out": out, "wall": wall, "ok": ok,
            "rc": r.returncode, "tail": "".join(tail[-60:])}


def extract_replay(tlc_out, cases_path, transform=None):
    """REPLAY lines printed by the Emit invariant -> NDJSON cases; returns count"""
    n = 0
    with open(cases_path, "w") as w, open(tlc_out, errors="replace") as f:
        for l in f:
            if not l.startswith('<<"REPLAY"'):
                continue
            i = l.index(", ") + 2
            obj = json.loads(json.loads(l[i:].rstrip()[:-2]))
            if transform:
                for o in transform(obj):
                    w.write(json.dumps(o) + "\n")
                    n += 1
            else:
                w.write(json.dumps(obj) + "\n")
                n += 1
    return n


def cached_tlc_cases(name, module, cfg, defs_path, extra_files=(), timeout=1800, env=None):
    """spec-side enumeration depends only on the specification and the definitions, not on /repo:
    cache the printed cases keyed by the hash of everything it depends on"""
    ensure_dirs()
    files = [os.path.join(TLA, module + ".tla"), os.path.join(TLA, cfg), defs_path,
             os.path.join(TLA, "CmdLine.tla"), os.path.join(TLA, "GroupLine.tla")] + list(extra_files)
    key = file_hash(*files, extra=json.dumps(env or {}, sort_keys=True))
    cases = os.path.join(CACHE, f"{name}-{key}.cases")
    meta = os.path.join(CACHE, f"{name}-{key}.json")
    if os.path.exists(cases) and os.path.exists(meta):
        m = json.load(open(meta))
        m["cached"] = True
        return cases, m
    e = {"DEFS": defs_path}
    e.update(env or {})
    r = run_tlc(module, cfg, env=e, timeout=timeout)
    if not r["ok"]:
        raise SpecError(f"TLC reported a problem on {module}/{cfg}:\n{r['tail']}")
    n = extract_replay(r["out"], cases + ".tmp")
    os.rename(cases + ".tmp", cases)
    os.remove(r["out"])
    m = {"states": r["states"], "distinct": r["distinct"], "cases": n, "wall": round(r["wall"], 1),
         "cached": False, "module": module, "cfg": cfg}
    json.dump(m, open(meta, "w"))
    return cases, m


class SpecError(Exception):
    """the specification itself violates one of its properties (design-level failure)"""


# ------------------------------------------------------------------ replay into the implementation
def run_replay(hbin, defs_path, cases_path, out_path, dump=None, timeout=3600, hooks=None, hooks_every=1):
    cmd = [hbin, "replay", "--cases", cases_path, "--out", out_path]
    if hooks:
        cmd += ["--hooks", hooks, "--hooks-every", str(hooks_every)]
    if defs_path:
        cmd += ["--defs", defs_path]
    if dump:
        cmd += ["--dump-obs", dump]
    r = subprocess.run(cmd, text=True, capture_output=True, timeout=timeout)
    if r.returncode != 0:
        raise ToolError(f"harness replay failed rc={r.returncode}: {r.stderr[-2000:]}")
    return json.loads(r.stdout.strip().splitlines()[-1])


def read_ndjson(path):
    with open(path) as f:
        for l in f:
            if l.strip():
                yield json.loads(l)


# ------------------------------------------------------------------ findings / verdicts
def load_known():
    p = os.path.join(VERIF, "known_findings.json")
    if not os.path.exists(p):
        return []
    return json.load(open(p))["findings"]


class Verdict:
    def __init__(self, pid, tier):
        self.pid = pid
        self.tier = tier
        self.t0 = time.time()
        self.violations = []      # (signature, case)
        self.known_hits = {}      # finding id -> count
        self.known = [k for k in load_known() if k["property"] == pid and k["status"] == "known"]
        self.info = {}
        self.coverage = {}
        self.assumptions = []

    def report(self, signature, case):
        """a case that contradicts the property; signature = the features that make it fail"""
        for k in self.known:
            if k["signature"] == signature:
                self.known_hits[k["id"]] = self.known_hits.get(k["id"], 0) + 1
                return "known"
        self.violations.append((signature, case))
        return "violation"

    def finish(self, level, coverage, assumptions=()):
        ensure_dirs()
        for k in self.known:
            n = self.known_hits.get(k["id"], 0)
            if n:
                print(f"KNOWN-FINDING: property={self.pid} {k['id']} {k['what']} ({n} cases)")
        rc = 0
        seen = set()
        for sig, case in self.violations:
            key = json.dumps(sig, sort_keys=True)
            if key in seen:
                continue
            seen.add(key)
            h = hashlib.sha256(json.dumps(case, sort_keys=True).encode()).hexdigest()[:12]
            path = os.path.join(REPLAYS, f"{self.pid}-{h}.json")
            json.dump({"property": self.pid, "signature": sig, "case": case}, open(path, "w"), indent=1)
            print(f"VIOLATION property={self.pid} replay={path}")
            log(f"  signature={sig}")
            rc = 1
            if len(seen) >= 20:
                break
        cov = dict(coverage)
        cov.setdefault("known_finding_cases", sum(self.known_hits.values()))
        ev = {"property_id": self.pid, "tier": self.tier, "seed": SEED, "level": level,
              "coverage": cov, "assumptions": list(assumptions),
              "wall_s": round(time.time() - self.t0, 1), "violations": len(self.violations)}
        json.dump(ev, open(os.path.join(EVIDENCE, f"{self.pid}.json"), "w"), indent=1)
        log(f"[{self.pid}] {self.tier}: violations={len(self.violations)} known={sum(self.known_hits.values())} "
            f"wall={ev['wall_s']}s")
        return rc


def main_wrap(fn):
    """exit code discipline: 0 held, 1 VIOLATION, 2 infrastructure problem"""
    try:
        sys.exit(fn())
    except ToolError as e:
        log("TOOL-ERROR:", e)
        sys.exit(2)
    except subprocess.TimeoutExpired as e:
        log("TOOL-TIMEOUT:", e)
        sys.exit(2)


def validate_ledger(v, hooks_path, cases_path, tag="ledger", chunk_lines=250000):
    """impl -> spec for the consumption ledger: hook events of real runs validated by TLC against LedgerTrace.tla;
    the recording is cut at run boundaries into chunks TLC can hold in memory; returns (events, runs)"""
    import re
    events = runs = 0
    ends = []          # (line number of each end event, run index)
    chunks = []        # (path, first line number - 1)
    out = None
    n_in_chunk = 0
    with open(hooks_path) as f:
        for i, l in enumerate(f, 1):
            if out is None:
                cp = f"{hooks_path}.part{len(chunks)}"
                out = open(cp, "w")
                chunks.append((cp, i - 1))
                n_in_chunk = 0
            out.write(l)
            n_in_chunk += 1
            events += 1
            if l.startswith('{"class"'):
                ends.append((i, json.loads(l)["run"]))
                runs += 1
                if n_in_chunk >= chunk_lines:
                    out.close()
                    out = None
    if out is not None:
        out.close()
    rej = []
    failed = None
    for cp, off in chunks:
        t = run_tlc("LedgerTrace", "LedgerTrace.cfg", env={"TRACE": cp}, workers=1,
                    extra_java="-Xss1g -Dtlc2.tool.queue.IStateQueue=StateDeque", timeout=3600)
        for l in open(t["out"], errors="replace"):
            m = re.search(r'<<"REJECT", (\d+), "(\w+)">>', l)
            if m:
                rej.append((int(m.group(1)) + off, m.group(2)))
        os.remove(cp)
        if t["ok"]:
            os.remove(t["out"])
        elif failed is None:
            failed = t["tail"]
    if rej:
        cases = list(read_ndjson(cases_path))
        for line, ev in rej:
            run = next((r for (i, r) in ends if i >= line), None)
            c = cases[run] if run is not None and run < len(cases) else {}
            v.report({"rule": "ledger_protocol", "event": ev},
                     {"def": c.get("def"), "line": c.get("line"), "event_line": line, "event": ev, "hooks": hooks_path})
    if failed is not None:
        raise ToolError("LedgerTrace did not complete:\n" + failed)
    return events, runs
