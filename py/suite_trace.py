"""Trace the repository's own test-suite with the ledger hooks on, in a scratch copy of /repo's working tree,
and validate every recorded event with LedgerTrace.tla (impl -> spec on shapes the generators do not produce:
any/anywhere, literal, cargo_helper, nested adjacent groups, the documentation examples)."""
import glob, os, shutil, subprocess
from vlib import *

SCRATCH = "/tmp/bpaf-suite-trace" + os.path.basename(WORK)[4:]


def run_suite_trace(v):
    shutil.rmtree(SCRATCH, ignore_errors=True)
    try:
        r = subprocess.run(["rsync", "-a", "--exclude", "target", "--exclude", ".git", REPO + "/", SCRATCH + "/"], capture_output=True, text=True)
        if r.returncode != 0:
            raise ToolError("rsync failed: " + r.stderr[-500:])
        tdir = os.path.join(SCRATCH, "_trace")
        os.makedirs(tdir)
        env = dict(os.environ, CARGO_NET_OFFLINE="true", BPAF_VERIF_TRACE_DIR=tdir,
                   RUSTFLAGS="--cfg bpaf_verif --check-cfg cfg(bpaf_verif)")
        t = time.time()
        r = subprocess.run(["cargo", "test", "--offline", "--workspace", "--tests", "--no-fail-fast", "--", "--test-threads", "8"], cwd=SCRATCH, env=env,
                           capture_output=True, text=True, timeout=3600)
        log(f"[suite-trace] cargo test --workspace with hooks: rc={r.returncode} {time.time()-t:.0f}s")
        passed = sum(int(x.split(" passed")[0].split()[-1]) for x in r.stdout.splitlines() if "test result:" in x and " passed" in x)
        files = sorted(glob.glob(os.path.join(tdir, "*.ndjson")))
        merged = os.path.join(WORK, f"suite-trace-{v.tier}.ndjson")
        n = 0
        with open(merged, "w") as w:
            for f in files:
                for l in open(f):
                    if l.strip():
                        w.write(l)
                        n += 1
        if n == 0:
            raise ToolError("the traced test-suite produced no events:\n" + r.stderr[-1500:])
        tl = run_tlc("LedgerTrace", "LedgerTrace.cfg", env={"TRACE": merged}, workers=1,
                     extra_java="-Xss1g -Dtlc2.tool.queue.IStateQueue=StateDeque", timeout=3600)
        import re
        rej = 0
        lines = None
        for l in open(tl["out"], errors="replace"):
            m = re.search(r'<<"REJECT", (\d+), "(\w+)">>', l)
            if m:
                rej += 1
                if lines is None:
                    lines = open(merged).read().splitlines()
                i = int(m.group(1))
                v.report({"rule": "ledger_protocol_in_test_suite", "event": m.group(2)},
                         {"event_line": i, "event": lines[i - 1][:600], "context": lines[max(0, i - 4):i - 1]})
        if not tl["ok"]:
            raise ToolError("LedgerTrace on the suite trace did not complete:\n" + tl["tail"])
        return {"suite_tests_passed_with_hooks": passed, "suite_events_validated": n, "suite_events_rejected": rej}
    finally:
        shutil.rmtree(SCRATCH, ignore_errors=True)
