"""Generic engine for the properties decided on CmdLine.tla:
   1. TLC design run   - the property's invariants / action properties on the specification;
   2. TLC replay run   - every reachable (definition, line) state printed with the outcome demanded;
   3. harness replay   - the real parser run on every case, outcome compared (spec -> impl);
   4. seeded driver    - longer lines over larger definitions run by the real parser, the recorded
                         outcomes validated by TLC against the same specification (impl -> spec)."""
import json, os, random, time
from vlib import *
import defs as D
import linegen
import cmdline_sig


def sample_cases(path, k=3, pred=None):
    out = []
    for i, c in enumerate(read_ndjson(path)):
        if pred and not pred(c):
            continue
        out.append(c)
        if len(out) >= k:
            break
    return out


def run_cmdline_property(v, family, design_cfg, replay_cfg="MC_CmdLine_replay.cfg", module="MC_CmdLine",
                         signature=None, judge=None, driver=None, transform=None, name=None,
                         extra_files=(), enrich=None, trace_module="CmdLineTrace", ledger_every=0):
    """returns coverage dict pieces; v is the Verdict"""
    name = name or v.pid
    ensure_dirs()
    hbin = build_harness()
    defs_path = os.path.join(WORK, f"{name}-{v.tier}-defs.ndjson")
    D.write_ndjson(defs_path, family)
    cov = {"definitions": len(family)}
    # 1. design-level properties on the specification (independent of /repo: cached by hash)
    if design_cfg:
        _, dm = cached_tlc_cases(name + "-design", module, design_cfg, defs_path, extra_files=extra_files)
        cov["design_states"] = dm["distinct"]
        cov["design_transitions"] = dm["states"]
        cov["design_cached"] = dm["cached"]
    # 2. replay cases
    cases, rm = cached_tlc_cases(name + "-replay", module, replay_cfg, defs_path, extra_files=extra_files)
    cov["states"] = rm["distinct"]
    cov["transitions"] = rm["states"]
    cov["replay_cached"] = rm["cached"]
    if enrich:
        ecases = os.path.join(WORK, f"{name}-{v.tier}-ecases.ndjson")
        cov.update(enrich(cases, ecases) or {})
        cases = ecases
    if transform:
        tcases = os.path.join(WORK, f"{name}-{v.tier}-tcases.ndjson")
        with open(tcases, "w") as w:
            for c in read_ndjson(cases):
                for o in transform(c):
                    w.write(json.dumps(o) + "\n")
        cases = tcases
    # 3. spec -> impl
    mm = os.path.join(WORK, f"{name}-{v.tier}-mm.ndjson")
    hooks = os.path.join(WORK, f"{name}-{v.tier}-hooks.ndjson") if ledger_every else None
    if ledger_every:
        # hook events are recorded for every k-th case; at most ~60 000 runs are recorded and validated per pass
        ncases = sum(1 for _ in open(cases))
        ledger_every = max(ledger_every, -(-ncases // 60000))
        cov["ledger_every_kth_case"] = ledger_every
    summ = run_replay(hbin, defs_path, cases, mm, hooks=hooks, hooks_every=ledger_every or 1)
    if hooks:
        ev, runs = validate_ledger(v, hooks, cases)
        cov["ledger_events_validated"] = ev
        cov["ledger_runs_validated"] = runs
        os.remove(hooks)
    cov["replayed"] = summ["cases"]
    cov["impl_classes"] = summ["classes"]
    n_out = n_f16 = 0
    for m in read_ndjson(mm):
        if m.get("outside"):
            n_out += 1
            continue
        if judge and not judge(m):
            continue
        if v.pid not in ("C10", "C19") and cmdline_sig.is_f16(m):      # F16 is C10's and C19's to report
            n_f16 += 1
            continue
        sig = signature(m) if signature else {"rule": "outcome_mismatch"}
        v.report(sig, {k: m[k] for k in m if k not in ("def_full",)} | {"def": m.get("def_full", m.get("def"))})
    cov["outside_quantifier_informational"] = n_out
    if n_f16:
        cov["f16_cases_left_to_C10_C19"] = n_f16
    nontriv = 0
    for c in read_ndjson(cases):
        if c["line"] and not c.get("outside"):
            nontriv += 1
    cov["distinct_nontrivial"] = nontriv
    cov["samples"] = [{"def": c["def"], "line": [i.get("txt") for i in c["line"]], "expect": c["expect"]}
                      for c in sample_cases(cases, 3, lambda c: len(c["line"]) >= 2 and c["expect"]["class"] == "ok")]
    # 4. impl -> spec beyond the exhaustive bound
    tv = 0
    if driver:
        tv = run_driver(v, hbin, driver, name, signature, trace_module)
    cov["traces_validated_against_impl"] = summ["cases"] + tv
    cov["driver_records_validated_by_tlc"] = tv
    return cov


def run_tree_groups(v, seed, n, maxlen, budget, kinds, signature, ledger_every=1, driver_n=4000):
    """TreeLine.tla: subcommands whose own level has choices / adjacent groups; all lines, replayed with hook validation"""
    fam = D.tree_group_family(seed, n, maxlen=maxlen, budget=budget, kinds=kinds)
    def sig(m):
        d = m.get("def_full") or {}
        subs = [c["level"] for c in d.get("tail", {}).get("cmds", [])] if isinstance(d, dict) else []
        s = signature(dict(m, def_full=subs[0]) if len(subs) == 1 else m)
        s["shape"] = "group_inside_command"
        return s if "rule" not in s else {k: s[k] for k in s if k != "shape"}
    big = D.tree_group_family(seed + 5000, 24, maxlen=4, budget=10**9, kinds=[k for k in kinds if k != "acmd"] or ["alt"])
    def gen(rnd, d):
        yield "line", linegen.tree_group_line(rnd, d)
    cov = run_cmdline_property(v, fam, None, replay_cfg="MC_TreeLine_replay.cfg", module="MC_TreeLine", signature=sig,
                               ledger_every=ledger_every, name=v.pid + "-tree", extra_files=[os.path.join(TLA, "TreeLine.tla")],
                               trace_module="TreeLineTrace", driver={"defs": big, "n": driver_n, "gen": gen})
    return cov


def phrase_line(rnd, d):
    """a line made of whole phrases of the definition, built the way the definition nests: a command's name followed by
    the phrases of its members, a group's tag followed by its members - and, often, one switch of the SAME command (or
    level) dropped somewhere inside a group's phrase (a block cut in two), with more items after it"""
    def name(n):
        return (n["shorts"] + n["longs"])[0]
    def phrase(node, sibs):
        k = node.get("kind")
        if k in ("switch", "reqflag"):
            return [name(node)]
        if k == "arg":
            return [name(node), rnd.choice(["1", "2"])]
        if k == "pos":
            # (an optional member left out: the word that follows the block is then its to try - and, when it does not
            # convert, the block's failure; a member given a word that does not convert)
            if node.get("arity") in ("opt", "many") and rnd.random() < 0.4:
                return []
            if node.get("vt") == "int" and rnd.random() < 0.1:
                return ["x"]
            return [rnd.choice(["1", "2"])]
        if k == "adj" and "head" in node:
            h = node["head"]
            own = [m for m in node["members"] if m.get("kind") in ("switch", "reqflag")]
            ph = [h["names"][0]] if h["kind"] == "cmd" else [h["lit"]] if h.get("kind") == "lit" else [name(h)]
            body = []
            for m in node["members"]:
                if m.get("kind") in ("switch", "reqflag") and rnd.random() < 0.6:
                    continue
                body += phrase(m, own if h["kind"] == "cmd" else sibs)
            # a switch claimed before this group is looked for, typed inside the group's phrase
            if h["kind"] != "cmd" and sibs and body and rnd.random() < 0.5:
                body.insert(rnd.randint(0, len(body) - 1) if len(body) > 1 else 0, name(rnd.choice(sibs)))
            return ph + body
        if k == "alt":
            b = rnd.choice(node["branches"])
            return [x for f in b["fields"] for x in phrase(f, sibs)]
        return []
    top = [f for f in d["named"]]
    tsw = [f for f in top if f.get("kind") in ("switch", "reqflag")]
    argv = []
    for _ in range(rnd.randint(1, 3)):
        argv += phrase(rnd.choice(top), tsw)
    for _ in range(rnd.choice([0, 1, 1, 2])):
        argv.append(rnd.choice(["x", "1"] + [name(f) for f in tsw]))
    return argv


def run_protocol_only(v, fam, n, name, pool_extra=("1", "2", "x", "--", "--zz", "--help"), phrases=False):
    """shapes the acceptors do not model: random lines over the definition's names are run with the hooks on and judged
    by the ledger protocol alone (LedgerTrace: contiguous blocks, scopes restored, exactly-once, verdicts); a panic is a
    violation as everywhere"""
    hbin = build_harness()
    rnd = random.Random(SEED * 131 + 7)
    dpath = os.path.join(WORK, f"{name}-{v.tier}-defs.ndjson")
    D.write_ndjson(dpath, fam)
    cpath = os.path.join(WORK, f"{name}-{v.tier}-cases.ndjson")
    def names(node, acc):
        if isinstance(node, dict):
            if node.get("kind") in ("switch", "reqflag", "arg"):
                acc += [(x, node["kind"]) for x in node["shorts"] + node["longs"]]
            if node.get("kind") == "cmd":
                acc += [(x, "word") for x in node["names"]]
            if node.get("kind") == "any" and node.get("prefix"):
                acc += [(node["prefix"] + "n=1", "word"), (node["prefix"] + "n", "word")]
            for k in ("named", "branches", "fields", "members", "head"):
                if k in node:
                    names(node[k], acc)
        elif isinstance(node, list):
            for x in node:
                names(x, acc)
        return acc
    with open(cpath, "w") as w:
        for i in range(n):
            d = fam[i % len(fam)]
            voc = names(d, [])
            argv = []
            if phrases and i % 2:
                w.write(json.dumps({"def": d["id"], "argv": phrase_line(rnd, d)}) + "\n")
                continue
            for _ in range(rnd.randint(0, 9)):
                r = rnd.random()
                if r < 0.6 and voc:
                    nm, kind = rnd.choice(voc)
                    argv.append(nm)
                    if kind == "arg" and rnd.random() < 0.8:
                        argv.append(rnd.choice(["1", "2", "x"]))
                else:
                    argv.append(rnd.choice(pool_extra))
            w.write(json.dumps({"def": d["id"], "argv": argv}) + "\n")
    hooks = os.path.join(WORK, f"{name}-{v.tier}-hooks.ndjson")
    dump = os.path.join(WORK, f"{name}-{v.tier}-obs.ndjson")
    summ = run_replay(hbin, dpath, cpath, os.path.join(WORK, f"{name}-{v.tier}-mm.ndjson"), hooks=hooks, dump=dump)
    for r in read_ndjson(dump):
        # (a definition that breaks a documented construction rule panics with "bpaf usage BUG": not this property's business)
        if r["got"]["class"] == "panic" and "bpaf usage BUG" not in r["got"].get("text", ""):
            v.report({"rule": "panic", "shape": "beyond_acceptors"}, {"def": r["def"], "argv_bytes": r["argv_bytes"], "got": r["got"]})
    ev, runs = validate_ledger(v, hooks, cpath)
    os.remove(hooks)
    return {"protocol_only_runs": runs, "protocol_only_events": ev, "protocol_only_classes": summ["classes"]}


def run_driver(v, hbin, driver, name, signature, trace_module="CmdLineTrace"):
    """driver = dict(defs=[...], n=int, maxlen=int, judge=optional)"""
    rnd = random.Random(SEED * 7919 + 13)
    ddefs = driver["defs"]
    dpath = os.path.join(WORK, f"{name}-{v.tier}-ddefs.ndjson")
    D.write_ndjson(dpath, ddefs)
    cpath = os.path.join(WORK, f"{name}-{v.tier}-dcases.ndjson")
    n = 0
    with open(cpath, "w") as w:
        i = 0
        while n < driver["n"]:
            d = ddefs[i % len(ddefs)]
            i += 1
            env = linegen.random_env(rnd, d)
            if "gen" in driver:
                for tag, line in driver["gen"](rnd, d):
                    w.write(json.dumps({"def": d["id"], "line": line, "env": env, "tag": tag, "grp": i}) + "\n")
                    n += 1
                continue
            line = linegen.random_line(rnd, d, driver.get("maxlen", 8), driver.get("mutate", 0.5),
                                       extras=driver.get("extras", ()))
            w.write(json.dumps({"def": d["id"], "line": line, "env": env}) + "\n")
            n += 1
    trace = os.path.join(WORK, f"{name}-{v.tier}-trace.ndjson")
    mm = os.path.join(WORK, f"{name}-{v.tier}-dmm.ndjson")
    run_replay(hbin, dpath, cpath, mm, dump=trace)
    if "post" in driver:
        driver["post"](v, read_ndjson(trace))
    # slim the trace: TLC needs def id, line, env, got (class/value/kind/path/vtag)
    slim = trace + ".slim"
    with open(slim, "w") as w:
        for r in read_ndjson(trace):
            g = r["got"]
            got = {"class": g["class"], "kind": g.get("kind", ""), "vtext": g.get("vtext", ""), "text": g.get("text", "")[:300],
                   "vjson": json.dumps(g.get("value"), sort_keys=True, separators=(",", ":")),
                   "pjson": json.dumps(g.get("path") or [], separators=(",", ":"))}
            w.write(json.dumps({"def": r["def"], "line": r["line"], "env": r.get("env") or {}, "got": got,
                                "argv": r["argv_bytes"], "kind": "parse"}) + "\n")
    r = run_tlc(trace_module, trace_module + ".cfg", env={"TRACE": slim, "DEFS": dpath}, workers=1,
                extra_java="-Xss1g -Dtlc2.tool.queue.IStateQueue=StateDeque", timeout=1800)
    rej = [l for l in open(r["out"], errors="replace") if "REJECT" in l]
    if rej or not r["ok"]:
        # find the rejected records: TLC prints them; map each to a violation case
        bad = parse_rejects(r["out"])
        if not bad and not r["ok"]:
            raise ToolError("trace validation failed without a REJECT line:\n" + r["tail"])
        recs = list(read_ndjson(slim))
        dmap = {d["id"]: d for d in ddefs}
        for ix, exp in bad:
            rec = recs[ix - 1]
            if rec.get("outside"):
                continue
            m = {"def": rec["def"], "def_full": dmap[rec["def"]], "line": rec["line"], "env": rec["env"], "got": rec["got"],
                 "argv_bytes": rec["argv"], "expect": exp, "from": "trace-validation"}
            if v.pid not in ("C10", "C19") and cmdline_sig.is_f16(m):
                continue
            sig = signature(m) if signature else {"rule": "trace_rejected"}
            v.report(sig, m)
    return n


def parse_rejects(out):
    import re
    bad = []
    for l in open(out, errors="replace"):
        m = re.search(r'<<"REJECT", (\d+), (".*")>>\s*$', l)
        if m:
            try:
                exp = json.loads(json.loads(m.group(2)))
            except Exception:
                exp = {"class": "see-spec"}
            bad.append((int(m.group(1)), exp))
    return bad


def merge_cov(a, b, tag):
    """combine the coverage of two engine runs of one check (counts add up, samples concatenate)"""
    out = dict(a)
    for k, v in b.items():
        if isinstance(v, bool):
            out[k] = out.get(k, True) and v
        elif isinstance(v, int) and isinstance(out.get(k), int):
            out[k] = out[k] + v
        elif k == "samples":
            out[k] = out.get(k, []) + v
        elif k == "impl_classes":
            out[k] = {c: out.get(k, {}).get(c, 0) + v.get(c, 0) for c in set(out.get(k, {})) | set(v)}
        elif k not in out:
            out[k] = v
    out[tag + "_states"] = b.get("states", 0)
    return out
