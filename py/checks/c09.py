"""C09 - `--` ends option processing; strict positionals honour it."""
from vlib import *
import defs as D, cmdline_sig
from cmdline_check import run_cmdline_property


def families(tier):
    if tier == "quick":
        return D.pos_family(SEED + 90, 45, maxlen=4, budget=4000)
    return D.pos_family(SEED + 90, 200, maxlen=5, budget=40000)


def run(v):
    big = D.pos_family(SEED + 1090, 40, budget=10**9)
    cov = run_cmdline_property(v, families(v.tier), "MC_CmdLine_design.cfg", signature=cmdline_sig.signature,
                               driver={"defs": big, "n": 15000 if v.tier == "quick" else 300000, "maxlen": 12, "mutate": 0.8,
                                       "extras": ("help",)})
    cov["rule"] = ("0..3 positionals of every strictness/arity with 0..2 named items; all lines up to maxlen with `--` at every "
                   "position (also twice), dash-looking items, help, names and `--name=--` on both sides; DashDash checked by TLC")
    cov["exhaustive"] = True
    return v.finish("model_checking", cov, [])


def replay(path):
    return cmdline_sig.replay_file(path)
