"""C09 - `--` ends option processing; strict positionals honour it."""
from vlib import *
import defs as D, cmdline_sig
from cmdline_check import run_cmdline_property, merge_cov


def families(tier):
    if tier == "quick":
        return D.api_variants(D.pos_family(SEED + 90, 45, maxlen=4, budget=4000), SEED + 9) + D.hidpos_family(SEED + 95, maxlen=3)
    return D.api_variants(D.pos_family(SEED + 90, 200, maxlen=5, budget=40000), SEED + 9) + D.hidpos_family(SEED + 95, maxlen=4)


def near_family(seed, n, maxlen=3):
    """items right of `--` that look like a slip of a declared name or of a command: they are data, and a failing run
    must not talk about them as if they were names (no "did you mean", no "no such flag / command")"""
    out = []
    for i in range(n):
        named = [D.ar("a0", "one" if i % 2 else "opt", "str", "--name", "-n"), D.sw("s0", "--verbose")]
        if i % 3 == 0:
            tail = D.cmdtail([D.cmd("install", D.level([D.sw("ci", "-x")], D.NOTAIL))], optional=(i % 2 == 0))
            near = ["--nam", "instal", "--verbos"][(i // 3) % 3]
        else:
            tail = D.postail(D.pos("p0", ["one", "opt", "many"][i % 3]))
            near = ["--nam", "--verbos", "--nmae", "--nane"][i % 4]
        d = D.mkdef(f"near{seed}_{i}", D.level(named, tail), maxlen=maxlen, extras=("dd", "near"), spells=("eq",), words=("x",))
        d["alpha"]["near"] = near
        out.append(d)
    return out


FORBID = ["did you mean", "no such flag", "no such command", "pass it to command"]


def enrich_near(cases, out):
    n = 0
    with open(out, "w") as w:
        for c in read_ndjson(cases):
            # every item of these lines is data: the line begins with `--`
            if c["line"] and c["line"][0]["t"] == "dd" and c["expect"]["class"] == "stderr":
                c["expect"]["forbid"] = FORBID
                n += 1
            w.write(json.dumps(c) + "\n")
    return {"failing_lines_of_data_only": n}


def run(v):
    big = D.pos_family(SEED + 1090, 40, budget=10**9)
    ncov = run_cmdline_property(v, near_family(SEED + 95, 12 if v.tier == "quick" else 36, maxlen=3 if v.tier == "quick" else 4), None,
                                signature=cmdline_sig.signature, name="C09n", enrich=enrich_near)
    cov = run_cmdline_property(v, families(v.tier), "MC_CmdLine_design.cfg", signature=cmdline_sig.signature,
                               driver={"defs": big, "n": 15000 if v.tier == "quick" else 300000, "maxlen": 12, "mutate": 0.8,
                                       "extras": ("help",)})
    # defaulted positionals: a positional that finds no word of its own leaves every word where it is
    q = v.tier == "quick"
    fcov = run_cmdline_property(v, D.pos_fb_family(SEED + 91, 30 if q else 60, maxlen=3 if q else 4, budget=2500 if q else 20000), None,
                                signature=cmdline_sig.signature, name="C09f")
    cov = merge_cov(cov, fcov, "defaulted")
    cov = merge_cov(cov, ncov, "near_misses_after_dashdash")
    # completion honours `--` too: after it nothing typed is a name or a subcommand, so none is offered (C14's bounds
    # on definitions with `--` in the alphabet; in positional-only states MayOffer holds nothing but the `--` hint)
    from checks import c14
    cfam = D.cmd_family(SEED + 93, 10 if q else 30, depth=2, maxlen=3, budget=2500, extras=("dd",)) + D.pos_family(SEED + 94, 8 if q else 24, maxlen=3, budget=2500)
    for d in cfam:
        d["alpha"]["extras"] = ["dd"]
        d["alpha"]["clusters"] = False
        d["alpha"]["spells"] = ["sep"]
    cpath = os.path.join(WORK, f"C09-{v.tier}-cdefs.ndjson")
    D.write_ndjson(cpath, cfam)
    raw, cmeta = cached_tlc_cases("C09-complete", "MC_CmdLine", "MC_CmdLine_complete.cfg", cpath)
    ccases = os.path.join(WORK, f"C09-{v.tier}-ccases.ndjson")
    # only the requests made after a `--` are this property's business (the others are C14's)
    after = os.path.join(WORK, f"C09-{v.tier}-craw.ndjson")
    with open(after, "w") as w:
        for c in read_ndjson(raw):
            if any(it.get("t") == "dd" for it in c["line"]):
                w.write(json.dumps(c) + "\n")
    cn = c14.expand(after, ccases)
    cmm = os.path.join(WORK, f"C09-{v.tier}-cmm.ndjson")
    run_replay(build_harness(), cpath, ccases, cmm)
    for m in read_ndjson(cmm):
        v.report(c14.sig(m), {k: m[k] for k in m if k != "def_full"} | {"def": m.get("def_full", m.get("def"))})
    cov["completion_requests_around_dashdash"] = cn
    cov["rule"] = ("0..3 positionals of every strictness/arity with 0..2 named items; all lines up to maxlen with `--` at every "
                   "position (also twice), dash-looking items, help, names and `--name=--` on both sides; DashDash checked by TLC")
    cov["exhaustive"] = True
    return v.finish("model_checking", cov, [])


def replay(path):
    return cmdline_sig.replay_file(path)
