"""C03 - order of named options is irrelevant."""
from vlib import *
import defs as D, linegen, cmdline_sig
from cmdline_check import run_cmdline_property


def families(tier):
    if tier == "quick":
        return D.conv_family(SEED + 30, 30, max_named=3, maxlen=3, budget=2500) + \
               D.pos_family(SEED + 31, 12, maxlen=3, budget=2500) + D.cmd_family(SEED + 32, 8, maxlen=3, budget=2500)
    return D.conv_family(SEED + 30, 120, max_named=4, maxlen=4, budget=25000) + \
        D.pos_family(SEED + 31, 40, maxlen=4, budget=25000) + D.cmd_family(SEED + 32, 30, maxlen=4, budget=25000)


def gen(rnd, d):
    segs = linegen.level_segments(rnd, d)
    yield "orig", linegen.flatten(segs)
    for k in range(4):
        yield f"perm{k}", linegen.flatten(linegen.permute_segments(rnd, segs))


def post(v, recs):
    """metamorphic oracle of C03 on the implementation itself: all orders give the same outcome"""
    base = {}
    n = 0
    for r in recs:
        g = {k: r["got"].get(k) for k in ("class", "value", "kind", "path")}
        if r["tag"] == "orig":
            base[r["grp"]] = (g, r)
        else:
            b, br = base[r["grp"]]
            n += 1
            if g != b:
                v.report({"rule": "permutation_changes_outcome", "orig": b["class"], "perm": g["class"]},
                         {"def": r["def"], "line": r["line"], "orig_line": br["line"], "argv_bytes": r["argv_bytes"],
                          "orig_argv": br["argv_bytes"], "expect": br["got"], "got": r["got"]})
    v.info["permuted_pairs"] = n


def run(v):
    big = D.conv_family(SEED + 1030, 30, max_named=6, maxlen=3, budget=10**9) + \
        D.pos_family(SEED + 1031, 15, budget=10**9) + D.cmd_family(SEED + 1032, 15, depth=3, budget=10**9)
    cov = run_cmdline_property(v, families(v.tier), "MC_CmdLine_swap.cfg", signature=cmdline_sig.signature,
                               driver={"defs": big, "n": 20000 if v.tier == "quick" else 300000, "gen": gen, "post": post})
    cov["permuted_pairs_compared_on_impl"] = v.info.get("permuted_pairs", 0)
    cov["rule"] = ("SwapCommutes is checked by TLC in every reachable state (every exchange of two neighbouring occurrences "
                   "feeding different fields); all lines, hence all permutations up to maxlen, are replayed; the driver "
                   "compares each generated sentence with 4 re-interleavings on the real parser and validates all of them in TLC")
    cov["exhaustive"] = True
    return v.finish("model_checking", cov, ["adjacent exchanges generate all permutations (every intermediate line is itself a checked state)"])


def replay(path):
    return cmdline_sig.replay_file(path)
