"""C03 - order of named options is irrelevant."""
from vlib import *
import defs as D, linegen, cmdline_sig
from cmdline_check import run_cmdline_property, merge_cov
import itertools, random


def families(tier):
    if tier == "quick":
        fam = D.conv_family(SEED + 30, 30, max_named=3, maxlen=3, budget=2500) + \
              D.pos_family(SEED + 31, 12, maxlen=3, budget=2500) + D.cmd_family(SEED + 32, 8, maxlen=3, budget=2500)
        bud = 2500
    else:
        fam = D.conv_family(SEED + 30, 120, max_named=4, maxlen=4, budget=25000) + \
            D.pos_family(SEED + 31, 40, maxlen=4, budget=25000) + D.cmd_family(SEED + 32, 30, maxlen=4, budget=25000)
        bud = 25000
    # the help and version flags are named options as well: asked in either order, among the others
    k = 0
    for d in fam:
        if d["version"]:
            k += 1
            if k % 2:
                d["alpha"]["extras"] = sorted(set(d["alpha"]["extras"]) | {"help", "ver"})
                D.trim_to_budget(d, bud)
    # an attached value may be empty (`--name=`): still one occurrence, wherever it stands
    px = D.prefix_family(SEED + 34, maxlen=3 if tier == "quick" else 4)
    return fam + D.edge_family(SEED + 33, 9 if tier == "quick" else 27, maxlen=3) + (px[::2] if tier == "quick" else px)


def gen(rnd, d):
    segs = linegen.level_segments(rnd, d)
    yield "orig", linegen.flatten(segs)
    for k in range(4):
        yield f"perm{k}", linegen.flatten(linegen.permute_segments(rnd, segs))


def post(v, recs):
    """metamorphic oracle of C03 on the implementation itself: all orders give the same outcome"""
    base = {}
    n = 0
    for r in recs:
        g = {k: r["got"].get(k) for k in ("class", "value", "kind", "path")}
        if r["tag"] == "orig":
            base[r["grp"]] = (g, r)
        else:
            b, br = base[r["grp"]]
            n += 1
            if g != b:
                v.report({"rule": "permutation_changes_outcome", "orig": b["class"], "perm": g["class"]},
                         {"def": r["def"], "line": r["line"], "orig_line": br["line"], "argv_bytes": r["argv_bytes"],
                          "orig_argv": br["argv_bytes"], "expect": br["got"], "got": r["got"]})
    v.info["permuted_pairs"] = n


def shared_name_permutations(v):
    """choices whose branches share a named item (outside the families the specification gives a meaning to):
    SwapCommutes applied directly to the implementation - every permutation of the named items of a line must
    give the same outcome"""
    hbin = build_harness()
    defs = []
    for i, wrap in enumerate(["one", "opt"]):
        q = D.branch(D.rf("q0", "one", "-v"))
        lg = D.branch(D.rf("l0", "one", "-l"), D.sw("l1", "-v"))
        order = [q, lg] if i == 0 else [lg, q]
        defs.append(D.mkdef(f"shared{i}", D.level([D.sw("o1", "-x"), D.altf("g0", wrap, *order)], D.NOTAIL), maxlen=1))
        lv = D.branch(D.ar("a0", "one", "str", "--level"), D.sw("a1", "-v"))
        defs.append(D.mkdef(f"shared{i}b", D.level([D.altf("g0", wrap, q, lv), D.sw("o1", "-x")], D.postail(D.pos("p0", "opt"))), maxlen=1))
    dpath = os.path.join(WORK, f"C03-{v.tier}-shared-defs.ndjson")
    D.write_ndjson(dpath, defs)
    cpath = os.path.join(WORK, f"C03-{v.tier}-shared-cases.ndjson")
    n = 0
    with open(cpath, "w") as w:
        for d in defs:
            pool = [["-v"], ["-l"], ["-x"], ["--level=1"], ["--level", "1"]]
            for k in (1, 2, 3):
                for combo in itertools.combinations(pool, k):
                    perms = list(itertools.permutations(combo))
                    for j, p in enumerate(perms):
                        w.write(json.dumps({"def": d["id"], "argv": [x for g in p for x in g], "grp": f"{d['id']}|{sorted(map(tuple, combo))}",
                                            "first": j == 0}) + "\n")
                        n += 1
    dump = os.path.join(WORK, f"C03-{v.tier}-shared-obs.ndjson")
    run_replay(hbin, dpath, cpath, os.path.join(WORK, f"C03-{v.tier}-shared-mm.ndjson"), dump=dump)
    base = {}
    for r in read_ndjson(dump):
        g = {k: r["got"].get(k) for k in ("class", "value", "kind")}
        if r["grp"] not in base:
            base[r["grp"]] = (g, r)
        elif g != base[r["grp"]][0]:
            b, br = base[r["grp"]]
            v.report({"rule": "permutation_changes_outcome", "orig": b["class"], "perm": g["class"], "family": "shared_name_choice"},
                     {"def": r["def"], "argv_bytes": r["argv_bytes"], "orig_argv": br["argv_bytes"], "expect": br["got"], "got": r["got"]})
    return n


def typo_permutations(v):
    """a failure is an outcome too: a word that is a slip of a command name (or a flag that is a slip of a declared one)
    among valid named occurrences of the level; moving those around it must not change the message"""
    hbin = build_harness()
    defs = []
    for i in range(2):
        sub = D.level([D.sw("s0", "-x")], D.NOTAIL)
        cmds = [D.cmd("build", sub), D.cmd("test", D.level([], D.NOTAIL))]
        root = D.level([D.sw("o1", "-v", "--verbose"), D.ar("o2", "opt", "str", "--cfg"), D.rf("o3", "count", "-q")],
                       D.cmdtail(cmds, optional=bool(i)))
        defs.append(D.mkdef(f"typo{i}", root, maxlen=1))
    dpath = os.path.join(WORK, f"C03-{v.tier}-typo-defs.ndjson")
    D.write_ndjson(dpath, defs)
    cpath = os.path.join(WORK, f"C03-{v.tier}-typo-cases.ndjson")
    n = 0
    with open(cpath, "w") as w:
        for d in defs:
            for slip in (["biuld"], ["tset"], ["--verbos"], ["--cgf=1"]):
                for extra in ([["-v"]], [["-v"], ["-q"]], [["--cfg", "1"]], [["--cfg=1"], ["-q"], ["-q"]]):
                    if slip[0].startswith("--verbos") and ["-v"] in extra:
                        continue
                    items = [slip] + extra
                    seen = set()
                    for p in itertools.permutations(range(len(items))):
                        argv = [x for k in p for x in items[k]]
                        if tuple(argv) in seen:
                            continue
                        seen.add(tuple(argv))
                        w.write(json.dumps({"def": d["id"], "argv": argv, "grp": f"{d['id']}|{slip}|{extra}"}) + "\n")
                        n += 1
    dump = os.path.join(WORK, f"C03-{v.tier}-typo-obs.ndjson")
    run_replay(hbin, dpath, cpath, os.path.join(WORK, f"C03-{v.tier}-typo-mm.ndjson"), dump=dump)
    base = {}
    for r in read_ndjson(dump):
        g = {k: r["got"].get(k) for k in ("class", "value", "kind", "text")}
        if r["grp"] not in base:
            base[r["grp"]] = (g, r)
        elif g != base[r["grp"]][0]:
            b, br = base[r["grp"]]
            v.report({"rule": "permutation_changes_outcome", "orig": b["class"], "perm": g["class"], "family": "slip_of_a_name",
                      "text_differs": g.get("text") != b.get("text")},
                     {"def": r["def"], "argv_bytes": r["argv_bytes"], "orig_argv": br["argv_bytes"], "expect": br["got"], "got": r["got"]})
    return n


def conflict_permutations(v):
    """a failure is an outcome too: two mutually exclusive branches typed inside a subcommand that is not the first item of
    the line; moving an unrelated switch of that level around them (their own order kept) must not change the message"""
    hbin = build_harness()
    defs = []
    for i, wrap in enumerate(["one", "opt"]):
        g = D.altf("g0", wrap, D.branch(D.rf("b0", "one", "--fast")), D.branch(D.rf("b1", "one", "--slow")), D.branch(D.ar("b2", "one", "int", "--level")))
        sub = D.mkdef(f"csub{i}", D.level([D.sw("o1", "-v"), g, D.sw("o2", "-w")], D.NOTAIL), maxlen=1)
        root = D.level([D.sw("r1", "-q"), D.ar("r2", "opt", "str", "--cfg")], D.cmdtail([D.cmd("run", sub)]))
        defs.append(D.mkdef(f"conf{i}", root, maxlen=1))
    dpath = os.path.join(WORK, f"C03-{v.tier}-conf-defs.ndjson")
    D.write_ndjson(dpath, defs)
    cpath = os.path.join(WORK, f"C03-{v.tier}-conf-cases.ndjson")
    n = 0
    with open(cpath, "w") as w:
        for d in defs:
            for prefix in ([], ["-q"], ["--cfg=1"], ["-q", "--cfg", "1"]):
                for pair in (["--fast", "--slow"], ["--slow", "--fast"], ["--fast", "--level=1"], ["--level=2", "--slow"]):
                    for extra in (["-v"], ["-v", "-w"]):
                        items = [[x] for x in pair] + [[x] for x in extra]
                        seen = set()
                        for p in itertools.permutations(range(len(items))):
                            if p.index(0) > p.index(1):
                                continue        # the two branches keep their relative order: they feed the same field
                            argv = prefix + ["run"] + [x for k in p for x in items[k]]
                            if tuple(argv) in seen:
                                continue
                            seen.add(tuple(argv))
                            w.write(json.dumps({"def": d["id"], "argv": argv, "grp": f"{d['id']}|{prefix}|{pair}|{extra}"}) + "\n")
                            n += 1
    dump = os.path.join(WORK, f"C03-{v.tier}-conf-obs.ndjson")
    run_replay(hbin, dpath, cpath, os.path.join(WORK, f"C03-{v.tier}-conf-mm.ndjson"), dump=dump)
    base = {}
    for r in read_ndjson(dump):
        g = {k: r["got"].get(k) for k in ("class", "value", "kind", "text")}
        if r["grp"] not in base:
            base[r["grp"]] = (g, r)
        elif g != base[r["grp"]][0]:
            b, br = base[r["grp"]]
            v.report({"rule": "permutation_changes_outcome", "orig": b["class"], "perm": g["class"], "family": "conflict_in_subcommand",
                      "text_differs": g.get("text") != b.get("text")},
                     {"def": r["def"], "argv_bytes": r["argv_bytes"], "orig_argv": br["argv_bytes"], "expect": br["got"], "got": r["got"]})
    return n


def run(v):
    big = D.conv_family(SEED + 1030, 30, max_named=6, maxlen=3, budget=10**9) + \
        D.pos_family(SEED + 1031, 15, budget=10**9) + D.cmd_family(SEED + 1032, 15, depth=3, budget=10**9)
    cov = run_cmdline_property(v, families(v.tier), "MC_CmdLine_swap.cfg", signature=cmdline_sig.signature,
                               driver={"defs": big, "n": 20000 if v.tier == "quick" else 300000, "gen": gen, "post": post})
    # choices (GroupLine engine): GSwapCommutes on the specification, all lines replayed
    gfam = (D.alt_family(SEED + 33, 14, maxlen=4, budget=3000) + D.group_family(SEED, 3, 2000)[:10]) if v.tier == "quick" \
        else (D.alt_family(SEED + 33, 80, maxlen=5, budget=40000) + D.group_family(SEED, 5, 40000))
    # a choice between named branches and a positional one: the word is the choice's wherever the other options stand
    gfam += D.alt_pos_family(SEED + 35, 8 if v.tier == "quick" else 40, maxlen=3 if v.tier == "quick" else 4,
                             budget=2500 if v.tier == "quick" else 20000)
    gcov = run_cmdline_property(v, gfam, "MC_GroupLine_swap.cfg", replay_cfg="MC_GroupLine_replay.cfg", module="MC_GroupLine",
                                signature=cmdline_sig.signature, trace_module="GroupLineTrace", name="C03g")
    cov = merge_cov(cov, gcov, "groupline")
    cov["shared_name_permutations"] = shared_name_permutations(v)
    cov["conflict_permutations"] = conflict_permutations(v)
    cov["typo_permutations"] = typo_permutations(v)
    cov["permuted_pairs_compared_on_impl"] = v.info.get("permuted_pairs", 0)
    cov["rule"] = ("SwapCommutes is checked by TLC in every reachable state (every exchange of two neighbouring occurrences "
                   "feeding different fields); all lines, hence all permutations up to maxlen, are replayed; the driver "
                   "compares each generated sentence with 4 re-interleavings on the real parser and validates all of them in TLC")
    cov["exhaustive"] = True
    return v.finish("model_checking", cov, ["adjacent exchanges generate all permutations (every intermediate line is itself a checked state)"])


def replay(path):
    return cmdline_sig.replay_file(path)
