"""C03 - order of named options is irrelevant."""
from vlib import *
import defs as D, linegen, cmdline_sig
from cmdline_check import run_cmdline_property, merge_cov
import itertools, random


def families(tier):
    if tier == "quick":
        return D.conv_family(SEED + 30, 30, max_named=3, maxlen=3, budget=2500) + \
               D.pos_family(SEED + 31, 12, maxlen=3, budget=2500) + D.cmd_family(SEED + 32, 8, maxlen=3, budget=2500)
    return D.conv_family(SEED + 30, 120, max_named=4, maxlen=4, budget=25000) + \
        D.pos_family(SEED + 31, 40, maxlen=4, budget=25000) + D.cmd_family(SEED + 32, 30, maxlen=4, budget=25000)


def gen(rnd, d):
    segs = linegen.level_segments(rnd, d)
    yield "orig", linegen.flatten(segs)
    for k in range(4):
        yield f"perm{k}", linegen.flatten(linegen.permute_segments(rnd, segs))


def post(v, recs):
    """metamorphic oracle of C03 on the implementation itself: all orders give the same outcome"""
    base = {}
    n = 0
    for r in recs:
        g = {k: r["got"].get(k) for k in ("class", "value", "kind", "path")}
        if r["tag"] == "orig":
            base[r["grp"]] = (g, r)
        else:
            b, br = base[r["grp"]]
            n += 1
            if g != b:
                v.report({"rule": "permutation_changes_outcome", "orig": b["class"], "perm": g["class"]},
                         {"def": r["def"], "line": r["line"], "orig_line": br["line"], "argv_bytes": r["argv_bytes"],
                          "orig_argv": br["argv_bytes"], "expect": br["got"], "got": r["got"]})
    v.info["permuted_pairs"] = n


def shared_name_permutations(v):
    """choices whose branches share a named item (outside the families the specification gives a meaning to):
    SwapCommutes applied directly to the implementation - every permutation of the named items of a line must
    give the same outcome"""
    hbin = build_harness()
    defs = []
    for i, wrap in enumerate(["one", "opt"]):
        q = D.branch(D.rf("q0", "one", "-v"))
        lg = D.branch(D.rf("l0", "one", "-l"), D.sw("l1", "-v"))
        order = [q, lg] if i == 0 else [lg, q]
        defs.append(D.mkdef(f"shared{i}", D.level([D.sw("o1", "-x"), D.altf("g0", wrap, *order)], D.NOTAIL), maxlen=1))
        lv = D.branch(D.ar("a0", "one", "str", "--level"), D.sw("a1", "-v"))
        defs.append(D.mkdef(f"shared{i}b", D.level([D.altf("g0", wrap, q, lv), D.sw("o1", "-x")], D.postail(D.pos("p0", "opt"))), maxlen=1))
    dpath = os.path.join(WORK, f"C03-{v.tier}-shared-defs.ndjson")
    D.write_ndjson(dpath, defs)
    cpath = os.path.join(WORK, f"C03-{v.tier}-shared-cases.ndjson")
    n = 0
    with open(cpath, "w") as w:
        for d in defs:
            pool = [["-v"], ["-l"], ["-x"], ["--level=1"], ["--level", "1"]]
            for k in (1, 2, 3):
                for combo in itertools.combinations(pool, k):
                    perms = list(itertools.permutations(combo))
                    for j, p in enumerate(perms):
                        w.write(json.dumps({"def": d["id"], "argv": [x for g in p for x in g], "grp": f"{d['id']}|{sorted(map(tuple, combo))}",
                                            "first": j == 0}) + "\n")
                        n += 1
    dump = os.path.join(WORK, f"C03-{v.tier}-shared-obs.ndjson")
    run_replay(hbin, dpath, cpath, os.path.join(WORK, f"C03-{v.tier}-shared-mm.ndjson"), dump=dump)
    base = {}
    for r in read_ndjson(dump):
        g = {k: r["got"].get(k) for k in ("class", "value", "kind")}
        if r["grp"] not in base:
            base[r["grp"]] = (g, r)
        elif g != base[r["grp"]][0]:
            b, br = base[r["grp"]]
            v.report({"rule": "permutation_changes_outcome", "orig": b["class"], "perm": g["class"], "family": "shared_name_choice"},
                     {"def": r["def"], "argv_bytes": r["argv_bytes"], "orig_argv": br["argv_bytes"], "expect": br["got"], "got": r["got"]})
    return n


def run(v):
    big = D.conv_family(SEED + 1030, 30, max_named=6, maxlen=3, budget=10**9) + \
        D.pos_family(SEED + 1031, 15, budget=10**9) + D.cmd_family(SEED + 1032, 15, depth=3, budget=10**9)
    cov = run_cmdline_property(v, families(v.tier), "MC_CmdLine_swap.cfg", signature=cmdline_sig.signature,
                               driver={"defs": big, "n": 20000 if v.tier == "quick" else 300000, "gen": gen, "post": post})
    # choices (GroupLine engine): GSwapCommutes on the specification, all lines replayed
    gfam = (D.alt_family(SEED + 33, 14, maxlen=4, budget=3000) + D.group_family(SEED, 3, 2000)[:10]) if v.tier == "quick" \
        else (D.alt_family(SEED + 33, 80, maxlen=5, budget=40000) + D.group_family(SEED, 5, 40000))
    gcov = run_cmdline_property(v, gfam, "MC_GroupLine_swap.cfg", replay_cfg="MC_GroupLine_replay.cfg", module="MC_GroupLine",
                                signature=cmdline_sig.signature, trace_module="GroupLineTrace", name="C03g")
    cov = merge_cov(cov, gcov, "groupline")
    cov["shared_name_permutations"] = shared_name_permutations(v)
    cov["permuted_pairs_compared_on_impl"] = v.info.get("permuted_pairs", 0)
    cov["rule"] = ("SwapCommutes is checked by TLC in every reachable state (every exchange of two neighbouring occurrences "
                   "feeding different fields); all lines, hence all permutations up to maxlen, are replayed; the driver "
                   "compares each generated sentence with 4 re-interleavings on the real parser and validates all of them in TLC")
    cov["exhaustive"] = True
    return v.finish("model_checking", cov, ["adjacent exchanges generate all permutations (every intermediate line is itself a checked state)"])


def replay(path):
    return cmdline_sig.replay_file(path)
