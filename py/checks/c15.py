"""C15 - completion scripts for real shells are well-formed and inert."""
from vlib import *
import defs as D, random, re, tempfile, shutil
from checks.c16 import pe

TYPED = ["", "-", "--", "--a", "--output-dir", "$(touch CANARY1)", "`touch CANARY2`", "a'b", "a\"b", "a b", "a;touch CANARY3", "a|b", "x\ny", "\\", "*",
         "ñ", "--out=$(touch CANARY4)", "'", "a&b", "');touch CANARY5;('", "$HOME", "--name=cv", "a\\'b", "~", "#x", "{a,b}"]
HELPS = ["plain help", "it's quoted", "$(touch CANARY6)", "semi; colon", "back`tick`", "dq \" here", "paren ) ( here", "two\nlines",
         "long " + "word " * 30, "hard break:\n - one\n - two", "first\n continued line\n\nsecond paragraph"]


def shell_family(seed, n):
    rnd = random.Random(seed)
    fam = []
    for i in range(n):
        h = lambda: pe(rnd.choice(HELPS))
        named = [D.sw("f0", "-a", "--alpha", help=h()), D.rf("f1", "count", "--beta", help=h())]
        out = D.ar("o0", "opt", "str", "--out", "-o", help=h())
        out["complete_shell"] = rnd.choice(["file", "file_mask", "dir", "dir_mask", "nothing"])
        if i % 6 == 0:
            out["complete_shell"] = "nothing"       # (asks the shell for nothing at all: no directive, no candidate, no echo)
        out["mask"] = pe(rnd.choice(["*.toml", "it's", "*.(c|h)", "a b", "$(touch CANARY7)"]))
        nm = D.ar("n0", "opt", "str", "--name", help=h())
        nm["completer"] = [pe(x) for x in rnd.sample(["cv1", "cv'2", "cv 3", "cv$(touch CANARY8)", "cv;4", "cv\"5", "cvx"], 3)]
        if i % 3 == 1:
            # values that come with a description of the completer's own - also one of several lines
            nm["completer"] = [[c, pe(dsc)] for c, dsc in zip(nm["completer"], ["plain description", "two\nlines; rm -rf is not a candidate", "it's $(touch CANARY10)"])]
        if rnd.random() < 0.5:
            nm["cgroup"] = pe(rnd.choice(["grp", "grp's", "g $(touch CANARY9)"]))
        named += [out, nm]
        if i % 2 == 0:
            # long names, two of them sharing their first 24 characters
            named += [D.sw("l0", "--output-directory-for-reports-and-logs", help=h()), D.sw("l1", "--output-directory-for-reports-only", help=h())]
        p = D.pos("p0", rnd.choice(["opt", "many"]))
        p["help"] = h()
        if rnd.random() < 0.7:
            p["complete_shell"] = rnd.choice(["file", "dir", "file_mask"])
            p["mask"] = pe(rnd.choice(["*.rs", "o'k"]))
        if i % 4 == 1:
            # two positional alternatives, each with a shell completer of its own (same kind, different masks): both are
            # requested for the same typed word
            b1, b2 = D.posb("q1", "str"), D.posb("q2", "str")
            b1["complete_shell"], b1["mask"] = "file_mask", pe("*.rs")
            b2["complete_shell"], b2["mask"] = "file_mask", pe("*.toml")
            fam.append(D.mkdef(f"sh{seed}_{i}", D.level(named[:2] + [D.altf("g9", "one", D.branch(b1), D.branch(b2))], D.NOTAIL), maxlen=1))
            continue
        if i % 4 == 3:
            # two positional alternatives without completers (two value placeholders live at once), and a name that is
            # a flag in one alternative and takes a value in the other: different candidates that insert the same text
            b1, b2 = D.posb("q1", "str"), D.posb("q2", "int")
            b1["help"], b2["help"] = h(), h()
            ja, jf = D.ar("j0", "one", "str", "--jobs"), D.rf("j1", "one", "--jobs")
            ja["help"], jf["help"] = h(), h()
            g2 = D.altf("g8", "opt", D.branch(ja), D.branch(jf))
            fam.append(D.mkdef(f"sh{seed}_{i}", D.level(named[:2] + [g2, D.altf("g9", "opt", D.branch(b1), D.branch(b2))], D.NOTAIL), maxlen=1))
            continue
        if i % 3 == 2:
            sub = D.level([D.sw("s0", "--deep", help=h())], D.postail(p))
            c = D.cmd(["run", "r2"], sub)
            c["help"] = h()
            lvl = D.level(named[:2], D.cmdtail([c, D.cmd("rest", D.level([], D.NOTAIL))]))
        else:
            lvl = D.level(named, D.postail(p))
        fam.append(D.mkdef(f"sh{seed}_{i}", lvl, maxlen=1))
    return fam


def offers_multiline_help(d, x):
    """is one of the offered candidates an item whose help text spans several lines (explicit line break, or longer
    than the 100 columns at which bpaf wraps the text it hands to completion)?"""
    from checks.c16 import pe as _pe
    import urllib.parse
    subs = {"".join(i["subst"]) for i in x["items"]}
    def multi(h):
        t = urllib.parse.unquote(h)
        return "\n" in t or len(t) > 90
    for lvl in D.all_levels(d):
        for it in lvl["named"]:
            if subs & set(it["shorts"] + it["longs"]) and multi(it["help"]):
                return True
        for c in lvl["tail"].get("cmds", []):
            if subs & set(c["names"]) and multi(c["help"]):
                return True
    return False


def bash_sandbox(v, recs, limit):
    """source rev-8 outputs in a real bash with stubbed helpers; nothing typed may execute"""
    rnd = random.Random(SEED)
    pick = [r for r in recs if r["shell"] == "bash" and r["class"] == "completion"]
    rnd.shuffle(pick)
    tested = 0
    for r in pick[:limit]:
        d = tempfile.mkdtemp(prefix="c15-", dir=WORK)
        try:
            script = ("_init_completion() { echo INIT >> log; return 0; }\n_filedir() { echo \"FILEDIR\" >> log; }\n"
                      "f() {\n" + r["text"] + "\n:\n}\nCOMPREPLY=()\nf\nprintf '%s\\n' \"${#COMPREPLY[@]}\" > count\n")
            open(os.path.join(d, "s.sh"), "w").write(script)
            p = subprocess.run(["bash", "--norc", "--noprofile", "s.sh"], cwd=d, capture_output=True, text=True, timeout=20,
                               env={"PATH": os.environ.get("PATH", "/usr/bin:/bin"), "HOME": d})
            files = set(os.listdir(d))
            canaries = sorted(f for f in files if f.startswith("CANARY"))
            nlog = open(os.path.join(d, "log")).read().count("FILEDIR") if "log" in files else 0
            count = int(open(os.path.join(d, "count")).read().strip()) if "count" in files else -1
            tested += 1
            prob = None
            if canaries:
                prob = "typed_text_executed"
            elif p.returncode != 0 or count < 0:
                prob = "bash_syntax_error"
            elif nlog != r["nfiles"]:
                prob = "file_completer_calls"
            if prob:
                v.report({"rule": "bash_sandbox", "problem": prob},
                         {"def": r["def"], "argv": r["argv"], "rev": 8, "named": r["named"], "text": r["text"], "stderr": p.stderr[-500:],
                          "canaries": canaries, "filedir_calls": nlog, "expected_calls": r["nfiles"]})
        finally:
            shutil.rmtree(d, ignore_errors=True)
    return tested


def run(v):
    ensure_dirs()
    hbin = build_harness()
    d = run_tlc("ShellDesign", "ShellDesign.cfg", timeout=900, extra_java="-Xss512m")
    if not d["ok"]:
        raise SpecError("ShellDesign failed:\n" + d["tail"])
    q = v.tier == "quick"
    fam = shell_family(SEED + 150, 24 if q else 120)
    dpath = os.path.join(WORK, f"C15-{v.tier}-defs.ndjson")
    D.write_ndjson(dpath, fam)
    cpath = os.path.join(WORK, f"C15-{v.tier}-cases.ndjson")
    rnd = random.Random(SEED + 1)
    with open(cpath, "w") as w:
        for df in fam:
            typed = TYPED if not q else rnd.sample(TYPED, 12) + ["", "$(touch CANARY1)", "a'b"]
            for t in typed:
                t = pe(t)
                for pre in ([], ["--out"], ["--name"], ["run"], ["--alpha"]):
                    if rnd.random() < (0.5 if q else 0.9) or not pre:
                        w.write(json.dumps({"def": df["id"], "argv": pre + [t]}) + "\n")
    trace = os.path.join(WORK, f"C15-{v.tier}-shell.ndjson")
    r = subprocess.run([hbin, "shell", "--defs", dpath, "--cases", cpath, "--out", trace], text=True, capture_output=True, timeout=7200)
    if r.returncode != 0:
        raise ToolError("harness shell failed: " + r.stderr[-2000:])
    recs = list(read_ndjson(trace))
    dmap = {d["id"]: d for d in fam}
    good = []
    slim = trace + ".slim"
    with open(slim, "w") as w:
        for x in recs:
            if x["class"] != "completion":
                v.report({"rule": "not_completion_output", "class": x["class"], "shell": x["shell"], "named": x.get("named")},
                         {k: x[k] for k in x if k not in ("chars", "lines")})
                continue
            good.append(x)
            w.write(json.dumps({k: x[k] for k in ("shell", "chars", "lines", "items", "groups", "nfiles")} |
                               {"typednl": "%0A" in (x["argv"][-1] if x["argv"] else "")}) + "\n")
    t = run_tlc("ShellTrace", "ShellTrace.cfg", env={"TRACE": slim}, workers=1,
                extra_java="-Xss1g -Dtlc2.tool.queue.IStateQueue=StateDeque", timeout=7200)
    for l in open(t["out"], errors="replace"):
        m = re.search(r'<<"REJECT", (\d+), "(\w+)">>', l)
        if m:
            x = good[int(m.group(1)) - 1]
            sig = {"rule": "shellwords", "shell": x["shell"], "why": m.group(2), "candidates": min(len(x["items"]), 2),
                   "file_completers": min(x["nfiles"], 1)}
            typed_nl = "%0A" in (x["argv"][-1] if x["argv"] else "")
            if x["shell"] == "fish" and m.group(2) in ("candidates", "fields"):
                if typed_nl:
                    sig = {"rule": "fish_typed_word_with_newline"}
                elif x.get("multiline") or offers_multiline_help(dmap[x["def"]], x):
                    sig = {"rule": "fish_help_with_line_break"}
            v.report(sig,
                     {"def": x["def"], "argv": x["argv"], "rev": x["rev"], "named": x["named"], "text": x["text"]})
    if not t["ok"]:
        raise ToolError("ShellTrace did not complete:\n" + t["tail"])
    tested = bash_sandbox(v, good, 150 if q else 1500)
    # the static completer stub for bash must at least be syntactically valid
    cov = {"evaluations": len(recs), "distinct_nontrivial": len(good), "definitions": len(fam), "design_states": d["distinct"],
           "outputs_validated_by_tlc": len(good), "bash_outputs_sourced": tested,
           "samples": [{"def": x["def"], "argv": x["argv"], "shell": x["shell"], "text": x["text"][:200]} for x in good[10:13]],
           "rule": "definitions with complete_shell File/Dir (with/without masks)/Nothing, grouped completer values and hostile "
                   "help/mask/value texts x typed words with shell metacharacters x revisions 1/7/8/9 x with/without name; "
                   "each output lexed and judged by ShellWords.tla against the candidates computed at revision 0; a sample of "
                   "bash outputs sourced in a sandboxed bash with stubs and canaries; distinct = outputs"}
    return v.finish("exploration", cov, ["zsh, fish and elvish are not installed: decided by the lexer model of ShellWords.tla only",
                                         "ShellComp::Raw is excluded (user-supplied script text by definition)"])


def replay(path):
    r = json.load(open(path))
    print(json.dumps(r["case"], indent=1)[:3000])
    return 0
