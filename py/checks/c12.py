"""C12 - generated help documents exactly what the parser accepts."""
from vlib import *
import defs as D, re


def usage_of(text):
    """the usage paragraph of a help text without any blank (a rendered line may be wrapped between any two parts),
    percent-encoded like the definitions' strings"""
    from checks.c16 import pe
    lines = text.split("\n")
    for i, l in enumerate(lines):
        if l.startswith("Usage:"):
            j = i
            while j < len(lines) and lines[j].strip():
                j += 1
            return pe("".join(" ".join(lines[i:j]).split()))
    return ""


def sections_of(text):
    """the item lists of a help text with the heading each stands under: a heading is a line without indentation
    below the usage paragraph, item lines are indented by four blanks"""
    import re
    tok = lambda t: [x for x in re.split(r"[^A-Za-z0-9_-]+", t) if x]
    out, seen_usage = [], False
    for l in text.split("\n"):
        if l.startswith("Usage:"):
            seen_usage = True
            continue
        if not seen_usage or not l.strip():
            continue
        if not l.startswith(" "):
            out.append({"head": tok(l), "items": []})
        elif l.startswith("    ") and out:
            out[-1]["items"] += tok(l)
    return out


def doc_usages(kind, text):
    """the usage lines of a generated document, markup and blanks removed, percent-encoded like the definitions"""
    import re, html
    from checks.c16 import pe
    out = []
    if kind == "markdown":
        for m in re.finditer(r"^\*\*Usage\*\*:(.*)$", text, re.M):
            t = re.sub(r"\\(.)", r"\1", m.group(1).replace("**", "").replace("_`", "").replace("`_", "").replace("`", ""))
            out.append(pe("Usage:" + "".join(t.split())))
    elif kind == "manpage":
        # the lines of every SYNOPSIS section (the summary at the top repeats them all)
        insyn = False
        for l in text.split("\n"):
            if l.startswith(".SH"):
                insyn = l.strip() == ".SH SYNOPSIS"
            elif insyn and l and not l.startswith("."):
                t = re.sub(r"\\f[BIRP]", "", l).replace("\\-", "-").replace("\\&", "")
                if t.strip():
                    out.append(pe("Usage:" + "".join(t.split())))
    else:
        for m in re.finditer(r"<b>Usage</b>:(.*?)</p>", text, re.S):
            t = html.unescape(re.sub(r"<[^>]*>", "", m.group(1)))
            out.append(pe("Usage:" + "".join(t.split())))
    return out


def fill_metavars(x):
    """the default metavariable of the builder, spelled out for the specification"""
    if isinstance(x, dict):
        if "id" in x and ("vt" in x or x.get("kind") in ("arg", "pos", "any")) and not x.get("metavar"):
            x["metavar"] = "MV" + x["id"].upper()
        for v_ in x.values():
            fill_metavars(v_)
    elif isinstance(x, list):
        for v_ in x:
            fill_metavars(v_)


def judge_render(v, pid, hbin, fam, tag, docs=False, spec_fam=None, usage=False):
    if usage:
        fill_metavars(fam)
    dpath = os.path.join(WORK, f"{pid}-{v.tier}-{tag}-defs.ndjson")
    D.write_ndjson(dpath, fam)
    spath = dpath
    if spec_fam is not None:      # the specification reads the same definitions without the hostile decorations
        spath = os.path.join(WORK, f"{pid}-{v.tier}-{tag}-specdefs.ndjson")
        D.write_ndjson(spath, spec_fam)
    trace = os.path.join(WORK, f"{pid}-{v.tier}-{tag}-render.ndjson")
    cmd = [hbin, "render", "--defs", dpath, "--out", trace] + (["--docs"] if docs else [])
    r = subprocess.run(cmd, text=True, capture_output=True, timeout=3600)
    if r.returncode != 0:
        raise ToolError("harness render failed: " + r.stderr[-2000:])
    allrecs = list(read_ndjson(trace))
    recs = [x for x in allrecs if not x["kind"].endswith("-events")]
    judge_render.events = [x for x in allrecs if x["kind"].endswith("-events")]
    # records without the bulky text go to TLC
    slim = trace + ".slim"
    with open(slim, "w") as w:
        for x in recs:
            rec = {k: x[k] for k in ("def", "path", "kind", "items", "all", "order")}
            if usage and x["kind"] == "help" and x.get("class") == "stdout":
                rec["usage"] = usage_of(x.get("text", ""))
                rec["sections"] = sections_of(x.get("text", ""))
            if usage and x["kind"] in ("markdown", "html", "manpage") and x.get("text"):
                rec["usages"] = doc_usages(x["kind"], x["text"])
            w.write(json.dumps(rec) + "\n")
    t = run_tlc("HelpModel", "HelpModel.cfg", env={"TRACE": slim, "DEFS": spath}, workers=1,
                extra_java="-Xss1g -Dtlc2.tool.queue.IStateQueue=StateDeque", timeout=3000)
    rej = 0
    for l in open(t["out"], errors="replace"):
        m = re.search(r'<<"REJECT", (\d+), (".*")>>\s*$', l)
        if m:
            rej += 1
            rec = recs[int(m.group(1)) - 1]
            prob = json.loads(json.loads(m.group(2)))
            sig = {"rule": "listing", "kind": rec["kind"],
                   "missing": sorted({classify(x) for x in prob["missing"]}), "forbidden": sorted({classify(x) for x in prob["forbidden"]}),
                   "foreign": sorted({classify(x) for x in prob["foreign"]}), "order_ok": prob["order"],
                   "usage_ok": not prob.get("usage"), "doc_usage_ok": not prob.get("docusage"), "misplaced": sorted({classify(x[0]) + ">" + x[1].split("-")[0] for x in prob.get("misplaced", [])})}
            if prob.get("usage"):
                prob["usage_observed"] = usage_of(rec.get("text", ""))
            v.report(sig, {"def": rec["def"], "path": rec["path"], "kind": rec["kind"], "problems": prob, "text": rec.get("text", "")[:4000]})
    if not t["ok"]:
        raise ToolError("HelpModel validation did not complete:\n" + t["tail"])
    for x in recs:
        if x["class"] in ("panic", "stderr", "ok") or x["kind"] == "build_panic":
            v.report({"rule": "render_failed", "kind": x["kind"], "class": x.get("class")},
                     {"def": x["def"], "path": x.get("path"), "kind": x["kind"], "text": x.get("text", "")[:2000]})
    return recs, t


def classify(tok):
    if tok.startswith("--"):
        return "long"
    if tok.startswith("-"):
        return "short"
    if tok.startswith("HELP-"):
        return "help-cmd" if "-cmd-" in tok else "help"
    if tok.startswith("MV"):
        return "metavar"
    return "word"


def lit_with_help(fam):
    """a word tag (`literal`, an `any` item) that carries a help text, inside an adjacent group: listed like the others"""
    for d in fam:
        for f in d["named"]:
            if f["kind"] == "adj" and f["head"]["kind"] == "lit":
                f["head"]["help"] = f"HELP-lit-{d['id']}"
    return fam


def run(v):
    ensure_dirs()
    hbin = build_harness()
    fam = D.help_family(SEED + 120, 500 if v.tier == "quick" else 6000)
    import random
    rnd = random.Random(SEED)
    for d in fam[::4]:
        D.replace_help_names(d, rnd, 0.5)
    # the shapes the parsing engines know beyond the help family: positional and env-backed branches of choices,
    # commands whose own level holds choices and groups, validated switches, `catch`
    q = v.tier == "quick"
    fam += D.alt_pos_family(SEED + 121, 8 if q else 40) + D.alt_env_family(SEED + 122, 8 if q else 40) + \
        D.tree_group_family(SEED + 123, 8 if q else 40, kinds=("alt", "adj")) + D.flagguard_family(SEED + 124, 6 if q else 18) + \
        D.catch_family(SEED + 125, 6 if q else 18) + lit_with_help(D.littag_family(SEED + 127, 4 if q else 12))
    D.api_variants(fam, SEED + 126)
    recs, t = judge_render(v, "C12", hbin, fam, "h", usage=True)
    # the documentation generated for a sample of the same definitions repeats the usage line of every level
    import copy
    dfam = [d for d in copy.deepcopy(fam[:120 if q else 1500]) if "_" not in json.dumps(d.get("metavar", ""))]
    drecs, dt = judge_render(v, "C12", hbin, dfam, "hd", docs=True, usage=True)
    levels = len(recs)
    samples = [{"def": r["def"], "path": r["path"], "items": r["items"][:12]} for r in recs[5:8]]
    cov = {"states": t["distinct"], "transitions": t["states"], "traces_validated_against_impl": levels, "samples": samples,
           "definitions": len(fam), "documents_with_usage_lines": len([r for r in drecs if r["kind"] in ("markdown", "html", "manpage") and r.get("text")]), "command_levels": levels, "distinct_nontrivial": levels, "exhaustive": False,
           "rule": "generated definitions (all item kinds/arities, aliases, hidden items, hide_usage/custom_usage, group_help, "
                   "choices, adjacent groups, command trees of depth <= 3, level descriptions/headers/footers); help of every "
                   "reachable command level tokenised and compared by TLC with Listing computed from the definition "
                   "(missing / forbidden / foreign names, block order); that listed names are accepted is C01's replay"}
    return v.finish("model_checking", cov, ["names, metavariables and help texts are unique tokens, so presence is layout-independent"])


def replay(path):
    r = json.load(open(path))
    print(json.dumps(r["case"], indent=1)[:3000])
    return 0
