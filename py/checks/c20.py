"""C20 - optional cargo features do not change parsing."""
from vlib import *
import defs as D, cmdline_sig, hashlib
from checks import c02

SETS = ["default", "none", "autocomplete", "all", "dull", "bright"]


def corpus(tier):
    q = tier == "quick"
    fams = [("c", "MC_CmdLine", "MC_CmdLine_replay.cfg",
             D.conv_family(SEED + 200, 12 if q else 60, max_named=3, maxlen=3, budget=3000 if q else 20000, extras=("dd", "unk", "help")) +
             D.cmd_family(SEED + 201, 8 if q else 40, maxlen=3 if q else 4, budget=3000 if q else 20000) +
             D.val_family(SEED + 202, 8 if q else 40, maxlen=3, budget=3000 if q else 20000) +
             D.amb_family(SEED + 206, 3 if q else 9, maxlen=2 if q else 3) +
             D.env_family(SEED + 207, 11 if q else 33, maxlen=2, budget=300 if q else 2000) +
             D.catch_family(SEED + 208, 6 if q else 24, maxlen=2, budget=800 if q else 5000) +
             D.dupcmd_family(SEED + 213, 4 if q else 12, maxlen=2 if q else 3) +
             D.flagguard_family(SEED + 211, 12 if q else 36, maxlen=2 if q else 3, budget=800 if q else 5000) +
             [dict(d, alpha=dict(d["alpha"], extras=["help"])) for d in D.spell_family(SEED + 205, 14 if q else 56, maxlen=2, budget=4000 if q else 30000)]),
            ("g", "MC_GroupLine", "MC_GroupLine_replay.cfg",
             D.alt_family(SEED + 203, 8 if q else 40, maxlen=3 if q else 4, budget=3000 if q else 20000) +
             D.adj_family(SEED + 204, 6 if q else 30, maxlen=4 if q else 5, budget=3000 if q else 20000) +
             D.alt_env_family(SEED + 209, 6 if q else 30, maxlen=2 if q else 3, budget=1000 if q else 8000) +
             D.alt_pos_family(SEED + 210, 6 if q else 30, maxlen=3, budget=2000 if q else 15000) +
             D.group_fb_family(SEED + 212, 12 if q else 36, maxlen=3, budget=2500 if q else 15000, with_gdflt=True))]
    return fams


def run(v):
    ensure_dirs()
    total_cases = 0
    programs = 0
    disagreements = 0
    samples = []
    states = 0
    for tag, module, cfg, fam in corpus(v.tier):
        dpath = os.path.join(WORK, f"C20-{v.tier}-{tag}-defs.ndjson")
        D.write_ndjson(dpath, fam)
        programs += len(fam)
        cases, meta = cached_tlc_cases(f"C20{tag}-replay", module, cfg, dpath)
        states += meta["distinct"]
        ref = None
        for fs in SETS:
            hbin = build_harness(fs)
            mm = os.path.join(WORK, f"C20-{v.tier}-{tag}-{fs}-mm.ndjson")
            dump = os.path.join(WORK, f"C20-{v.tier}-{tag}-{fs}-obs.ndjson")
            summ = run_replay(hbin, dpath, cases, mm, dump=dump)
            # every build must conform to the specification ...
            for m in read_ndjson(mm):
                if m.get("outside"):
                    continue
                if "rule" in c02.sig(m):      # recorded tokeniser findings F11/F12 belong to C02
                    continue
                did = m["def"] if isinstance(m.get("def"), str) else (m.get("def") or {}).get("id", "")
                if did.startswith("dupcmd"):    # same-named commands: the acceptor gives them no meaning; compared across builds only
                    continue
                if "rule" in cmdline_sig.alt_env_sig(m):      # F18 belongs to C18/C06
                    continue
                s = cmdline_sig.signature(m)
                s["build"] = fs
                v.report(s, {k: m[k] for k in m if k != "def_full"} | {"def": m.get("def_full", m.get("def")), "build": fs})
            # ... and all builds must agree on class, value and monochrome text
            obs = {}
            for r in read_ndjson(dump):
                key = (r["def"], json.dumps(r["argv_bytes"]), json.dumps(r.get("env") or {}, sort_keys=True))
                obs[key] = (r["got"], r)
            if ref is None:
                ref = obs
                total_cases += len(obs)
                samples = [{"def": r["def"], "argv": r["argv_bytes"], "got_class": g["class"]} for g, r in list(obs.values())[100:103]]
            else:
                for key, (g, r) in obs.items():
                    disagreements += 1
                    if g != ref[key][0]:
                        v.report({"rule": "feature_set_changes_outcome", "build": fs, "ref_class": ref[key][0]["class"], "class": g["class"]},
                                 {"def": r["def"], "argv_bytes": r["argv_bytes"], "line": r.get("line"), "build": fs,
                                  "expect": ref[key][0], "got": g})
            os.remove(dump)
    cov = {"programs": programs, "disagreements_checked": disagreements, "samples": samples,
           "evaluations": total_cases * len(SETS), "distinct_nontrivial": total_cases, "states": states,
           "feature_sets": {k: FEATURE_SETS[k] for k in SETS},
           "rule": "every specification-generated case (CmdLine and GroupLine replay sets) run by six builds of the harness; "
                   "class, value and monochrome help/error text must be identical across builds and conform to the specification"}
    return v.finish("translation_validation", cov,
                    ["no case contains a completion marker; the `derive` feature is part of the `all` set (the derive macro is exercised by C17)"])


def replay(path):
    r = json.load(open(path))
    case = r["case"]
    res = {}
    for fs in SETS:
        hbin = build_harness(fs)
        d = os.path.join(WORK, "replay-c20")
        os.makedirs(d, exist_ok=True)
        with open(os.path.join(d, "case.ndjson"), "w") as f:
            c = {"def": case["def"], "argv": case["argv_bytes"]}
            f.write(json.dumps(c) + "\n")
        run_replay(hbin, None, os.path.join(d, "case.ndjson"), os.path.join(d, "mm"), dump=os.path.join(d, "obs"))
        res[fs] = list(read_ndjson(os.path.join(d, "obs")))[0]["got"]
    print(json.dumps(res, indent=1))
    if len({json.dumps(x, sort_keys=True) for x in res.values()}) > 1:
        print(f"VIOLATION property=C20 replay={path}")
        return 1
    return 0
