"""C20 - optional cargo features do not change parsing."""
from vlib import *
import defs as D, cmdline_sig, hashlib
from checks import c02

SETS = ["default", "none", "autocomplete", "all", "dull", "bright"]


def corpus(tier):
    q = tier == "quick"
    fams = [("c", "MC_CmdLine", "MC_CmdLine_replay.cfg",
             D.conv_family(SEED + 200, 12 if q else 60, max_named=3, maxlen=3, budget=3000 if q else 20000, extras=("dd", "unk", "help")) +
             D.cmd_family(SEED + 201, 8 if q else 40, maxlen=3 if q else 4, budget=3000 if q else 20000) +
             D.val_family(SEED + 202, 8 if q else 40, maxlen=3, budget=3000 if q else 20000) +
             D.amb_family(SEED + 206, 3 if q else 9, maxlen=2 if q else 3) +
             D.env_family(SEED + 207, 11 if q else 33, maxlen=2, budget=300 if q else 2000) +
             D.catch_family(SEED + 208, 6 if q else 24, maxlen=2, budget=800 if q else 5000) +
             D.dupcmd_family(SEED + 213, 4 if q else 12, maxlen=2 if q else 3) +
             D.flagguard_family(SEED + 211, 12 if q else 36, maxlen=2 if q else 3, budget=800 if q else 5000) +
             D.battery_family(SEED + 214, 12 if q else 48, maxlen=3, budget=1500 if q else 10000) +
             [dict(d, alpha=dict(d["alpha"], extras=["help"])) for d in D.spell_family(SEED + 205, 14 if q else 56, maxlen=2, budget=4000 if q else 30000)]),
            ("g", "MC_GroupLine", "MC_GroupLine_replay.cfg",
             D.alt_family(SEED + 203, 8 if q else 40, maxlen=3 if q else 4, budget=3000 if q else 20000) +
             D.adj_family(SEED + 204, 6 if q else 30, maxlen=4 if q else 5, budget=3000 if q else 20000) +
             D.alt_env_family(SEED + 209, 6 if q else 30, maxlen=2 if q else 3, budget=1000 if q else 8000) +
             D.alt_pos_family(SEED + 210, 6 if q else 30, maxlen=3, budget=2000 if q else 15000) +
             D.group_fb_family(SEED + 212, 12 if q else 36, maxlen=3, budget=2500 if q else 15000, with_gdflt=True) +
             D.toggle_family(SEED + 215, 6 if q else 18, maxlen=3, budget=2000 if q else 10000))]
    return fams


def documents(tier):
    """definitions whose help texts, group headers and descriptions exercise the renderer (styled fragments, code
    blocks - indented, nested, fenced -, line breaks, non-ASCII and long first lines) and lines that make every build
    render them: help (short and full) at every level, an ordinary parse, errors quoting hostile words.  No
    specification run is needed for these: the outcome of one build is the oracle for the others (C12/C13/C16
    decide the content)."""
    from checks.c16 import pe
    import random
    rnd = random.Random(SEED + 2000)
    texts = ["plain words only", "first line\nsame paragraph\n continued after a hard break",
             "intro\n\n    code line\n        nested deeper\n    back\n\nafter the block",
             "intro\n\n```text\nfenced a\n  fenced b\n```\n\nafter the fence", "é\nmore é words",
             "ééé x\n\nsecond ñ paragraph with words", "é" * 30 + " long first line", "x" * 44 + "é" * 6 + " tail\nnext",
             "tab\there", "a  double  blank", "trailing blank \n\n    code"]
    defs, cases = [], []
    n = 12 if tier == "quick" else 60
    for i in range(n):
        def styled(it, key="help"):
            t = rnd.choice(texts)
            it[key] = pe(t)
            starts = [k for k in range(1, len(t)) if t[k - 1] in " \n" and t[k] not in " \n"] + list(range(1, min(len(t), 4)))
            if rnd.random() < 0.7:
                it["help_cuts" if key == "help" else "gh_cuts"] = sorted(set(rnd.sample(starts, min(len(starts), rnd.randint(1, 3)))))
        a = D.sw("f0", "-a", "--alpha")
        b = D.ar("a0", "opt", "str", "--name", "-n")
        c = D.rf("r0", "count", "-c")
        for it in (a, b, c):
            styled(it)
        if i % 2 == 0:
            styled(a, "group_help")
        g = D.altf("g0", "opt", D.branch(D.rf("x0", "one", "--xx")), D.branch(D.rf("y0", "one", "--yy"), D.sw("y1", "--zz")))
        for l in D.field_leaves(g):
            styled(l)
        if i % 3 == 0:
            styled(g, "group_help")
        p = D.pos("p0", "opt")
        styled(p)
        sub = D.level([c], D.postail(p))
        cm = D.cmd(["run"], sub)
        styled(cm)
        lvl = D.level([a, b, g], D.cmdtail([cm], optional=True), version=(i % 4 == 0))
        for key in ("descr", "header", "footer"):
            if rnd.random() < 0.6:
                lvl[key] = pe(rnd.choice(texts))
        d = D.mkdef(f"doc{i}", lvl, maxlen=1)
        defs.append(d)
        hostile = ["oops:%0A      indented", "%C3%A9%0A  x", "--n%C3%A4m", "-%C3%A9", "--alpha=1", "w w"]
        for argv in (["--help"], ["--help", "--help"], ["-h"], ["run", "--help"], ["run", "-h"], [], ["-a"], ["--name", "x", "-a", "--xx"],
                     ["run", "-c", "p"], ["--version"], ["--nme", "x"], ["--yy", "--xx"], ["run", "--alpha"]):
            cases.append({"def": d["id"], "argv": argv})
        for h in hostile:
            cases.append({"def": d["id"], "argv": [h]})
            cases.append({"def": d["id"], "argv": ["run", "p", h]})
    # a header / help text whose first fragment holds the line break, followed by further styled fragments
    for j, (t, cuts) in enumerate([("é\nmore x", [7]), ("ééé x\n\np second ñ", [9, 10]), ("first\nsecond third fourth", [13, 19])] +
                                  [(t, None) for t in texts + ["\nstarts with a line break", "\n", " \n\nlater paragraph only", " "]]):
        a = D.sw("f0", "-a", "--alpha", help=pe(t))
        a["group_help"] = pe(t)
        if cuts:
            a["help_cuts"] = cuts
            a["gh_cuts"] = cuts
        sub = D.level([D.sw("s0", "-s")], D.NOTAIL)
        if j == 2:
            sub["descr"] = pe(t)
            sub["descr_cuts"] = cuts
        cm = D.cmd(["run"], sub)
        cm["help"] = ""
        d = D.mkdef(f"docfl{j}", D.level([a], D.cmdtail([cm], optional=True)), maxlen=1)
        defs.append(d)
        for argv in (["--help"], ["-h"], [], ["-a"], ["run"], ["run", "-h"], ["--alph"]):
            cases.append({"def": d["id"], "argv": argv})
    # generic trees beyond the acceptors (`any`, `pure`, nested groups, adjacent commands): hostile vectors, compared across
    # the builds only
    from checks.c04 import wild_defs, vocabulary
    wrnd = random.Random(SEED + 2001)
    for d in wild_defs(SEED + 2002, 30 if tier == "quick" else 200):
        defs.append(d)
        voc = vocabulary(d) + ["1", "x", "", "@any", "@", "--", "-"]
        for _ in range(12 if tier == "quick" else 40):
            k = wrnd.choice([1, 2, 2, 3, 4])
            argv = [wrnd.choice(voc) for _ in range(k)]
            if wrnd.random() < 0.3:
                argv.append("")               # a trailing empty string is an item like any other
            cases.append({"def": d["id"], "argv": argv})
    return defs, cases


def run(v):
    ensure_dirs()
    total_cases = 0
    programs = 0
    disagreements = 0
    samples = []
    states = 0
    for tag, module, cfg, fam in corpus(v.tier):
        dpath = os.path.join(WORK, f"C20-{v.tier}-{tag}-defs.ndjson")
        D.write_ndjson(dpath, fam)
        programs += len(fam)
        cases, meta = cached_tlc_cases(f"C20{tag}-replay", module, cfg, dpath)
        states += meta["distinct"]
        ref = None
        for fs in SETS:
            hbin = build_harness(fs)
            mm = os.path.join(WORK, f"C20-{v.tier}-{tag}-{fs}-mm.ndjson")
            dump = os.path.join(WORK, f"C20-{v.tier}-{tag}-{fs}-obs.ndjson")
            summ = run_replay(hbin, dpath, cases, mm, dump=dump)
            # every build must conform to the specification ...
            for m in read_ndjson(mm):
                if m.get("outside"):
                    continue
                if "rule" in c02.sig(m):      # recorded tokeniser findings F11/F12 belong to C02
                    continue
                did = m["def"] if isinstance(m.get("def"), str) else (m.get("def") or {}).get("id", "")
                if did.startswith("dupcmd"):    # same-named commands: the acceptor gives them no meaning; compared across builds only
                    continue
                if "rule" in cmdline_sig.alt_env_sig(m):      # F18 belongs to C18/C06
                    continue
                s = cmdline_sig.signature(m)
                s["build"] = fs
                v.report(s, {k: m[k] for k in m if k != "def_full"} | {"def": m.get("def_full", m.get("def")), "build": fs})
            # ... and all builds must agree on class, value and monochrome text
            obs = {}
            for r in read_ndjson(dump):
                key = (r["def"], json.dumps(r["argv_bytes"]), json.dumps(r.get("env") or {}, sort_keys=True))
                obs[key] = (r["got"], r)
            if ref is None:
                ref = obs
                total_cases += len(obs)
                samples = [{"def": r["def"], "argv": r["argv_bytes"], "got_class": g["class"]} for g, r in list(obs.values())[100:103]]
            else:
                for key, (g, r) in obs.items():
                    disagreements += 1
                    if g != ref[key][0]:
                        v.report({"rule": "feature_set_changes_outcome", "build": fs, "ref_class": ref[key][0]["class"], "class": g["class"]},
                                 {"def": r["def"], "argv_bytes": r["argv_bytes"], "line": r.get("line"), "build": fs,
                                  "expect": ref[key][0], "got": g})
            os.remove(dump)
    # documents: rendered texts compared across the builds
    ddefs, dcases = documents(v.tier)
    dpath = os.path.join(WORK, f"C20-{v.tier}-doc-defs.ndjson")
    D.write_ndjson(dpath, ddefs)
    cpath = os.path.join(WORK, f"C20-{v.tier}-doc-cases.ndjson")
    with open(cpath, "w") as w:
        for c in dcases:
            w.write(json.dumps(c) + "\n")
    ref = None
    doc_cases = 0
    for fs in SETS:
        hbin = build_harness(fs)
        dump = os.path.join(WORK, f"C20-{v.tier}-doc-{fs}-obs.ndjson")
        run_replay(hbin, dpath, cpath, os.path.join(WORK, f"C20-{v.tier}-doc-{fs}-mm.ndjson"), dump=dump)
        obs = {(r["def"], json.dumps(r["argv_bytes"])): (r["got"], r) for r in read_ndjson(dump)}
        os.remove(dump)
        for m in read_ndjson(os.path.join(WORK, f"C20-{v.tier}-doc-{fs}-mm.ndjson")):
            if "build_panic" in m:
                v.report({"rule": "panic_while_building_the_parser", "build": fs, "where": m["build_panic"][:60]},
                         {"def": m["case"]["def"], "argv_bytes": m["case"]["argv"], "build": fs, "got": {"class": "panic", "text": m["build_panic"]}})
        for key, (g, r) in obs.items():
            if g["class"] == "panic":
                v.report({"rule": "panic_while_rendering_or_parsing", "build": fs, "where": (g.get("text") or "")[:60]},
                         {"def": r["def"], "argv_bytes": r["argv_bytes"], "build": fs, "got": g})
        if ref is None:
            ref, ref_fs = obs, fs
            doc_cases = len(obs)
        else:
            for key, (g, r) in obs.items():
                disagreements += 1
                if g != ref[key][0] and "panic" not in (g["class"], ref[key][0]["class"]):
                    v.report({"rule": "feature_set_changes_rendered_text", "build": fs, "ref_class": ref[key][0]["class"], "class": g["class"]},
                             {"def": r["def"], "argv_bytes": r["argv_bytes"], "build": fs, "expect": ref[key][0], "got": g})
    programs += len(ddefs)
    total_cases += doc_cases
    cov = {"programs": programs, "disagreements_checked": disagreements, "samples": samples, "document_cases": doc_cases,
           "evaluations": total_cases * len(SETS), "distinct_nontrivial": total_cases, "states": states,
           "feature_sets": {k: FEATURE_SETS[k] for k in SETS},
           "rule": "every specification-generated case (CmdLine and GroupLine replay sets) run by six builds of the harness; "
                   "class, value and monochrome help/error text must be identical across builds and conform to the specification"}
    return v.finish("translation_validation", cov,
                    ["no case contains a completion marker; the `derive` feature is part of the `all` set (the derive macro is exercised by C17)"])


def replay(path):
    r = json.load(open(path))
    case = r["case"]
    res = {}
    for fs in SETS:
        hbin = build_harness(fs)
        d = os.path.join(WORK, "replay-c20")
        os.makedirs(d, exist_ok=True)
        with open(os.path.join(d, "case.ndjson"), "w") as f:
            c = {"def": case["def"], "argv": case["argv_bytes"]}
            f.write(json.dumps(c) + "\n")
        run_replay(hbin, None, os.path.join(d, "case.ndjson"), os.path.join(d, "mm"), dump=os.path.join(d, "obs"))
        res[fs] = list(read_ndjson(os.path.join(d, "obs")))[0]["got"]
    print(json.dumps(res, indent=1))
    if len({json.dumps(x, sort_keys=True) for x in res.values()}) > 1:
        print(f"VIOLATION property=C20 replay={path}")
        return 1
    return 0
