"""C17 - derive and combinatoric APIs define the same parser."""
from vlib import *
import defs as D, gen_derive as G, random, re

DC = os.path.join(VERIF, "derive_cases")


def build_cases_crate():
    env = dict(os.environ, CARGO_NET_OFFLINE="true")
    t = time.time()
    global DC
    if ALT:
        crate_dir(HARNESS_DIR)
    DC = crate_dir(os.path.join(VERIF, "derive_cases"))
    r = subprocess.run(["cargo", "build", "--offline", "--quiet"], cwd=DC, text=True, capture_output=True, env=env)
    if r.returncode != 0:
        raise ToolError("derive_cases build failed (a derived type does not compile?):\n" + r.stderr[-3000:])
    log(f"[build] derive_cases {time.time()-t:.1f}s")
    return os.path.join(DC, "target", "debug", "bpaf-verif-derive-cases")


def run(v):
    ensure_dirs()
    q = v.tier == "quick"
    tds = G.family(SEED + 170, 150 if q else 900)
    tpath = os.path.join(WORK, f"C17-{v.tier}-typedefs.ndjson")
    with open(tpath, "w") as w:
        for t in tds:
            w.write(json.dumps(t) + "\n")
    src = G.rust_source(tds)
    gen = os.path.join(DC, "src", "generated.rs")
    if not os.path.exists(gen) or open(gen).read() != src:
        open(gen, "w").write(src)
    binp = build_cases_crate()
    # 1. the documented rules, applied by TLC: type definition -> definition of the hand-written equivalent
    r = run_tlc("Derive", "Derive.cfg", env={"TYPEDEFS": tpath}, workers=1, timeout=900)
    if not r["ok"]:
        raise SpecError("Derive.tla is not total / well-formed on the family:\n" + r["tail"])
    derived = []
    for l in open(r["out"], errors="replace"):
        if l.startswith('<<"DERIVED"'):
            i = l.index(", ") + 2
            derived.append(json.loads(json.loads(l[i:].rstrip()[:-2])))
    cl, gl, nl = [], [], []
    for d in derived:
        if any(f.get("kind") == "seq" for f in d["named"]):
            nl.append(d)
            continue
        is_alt = any(f.get("kind") == "alt" for f in d["named"])
        d["alpha"] = D.alpha(words=("1", "x"), spells=("sep", "eq"), extras=("help", "unk") + (("ver",) if d["version"] else ()),
                             maxlen=2 if q else 3)
        (gl if is_alt else cl).append(d)
        if is_alt:
            d["alpha"]["extras"] = ["help", "unk"]
            D.galpha_trim(d, 2500 if q else 30000)
        else:
            D.trim_to_budget(d, 2500 if q else 30000)
    total = diffs = states = 0
    samples = []
    for tag, fam, module, cfg in (("c", cl, "MC_CmdLine", "MC_CmdLine_replay.cfg"), ("g", gl, "MC_GroupLine", "MC_GroupLine_replay.cfg")):
        if not fam:
            continue
        dpath = os.path.join(WORK, f"C17-{v.tier}-{tag}-defs.ndjson")
        D.write_ndjson(dpath, fam)
        # 2. command lines (with the outcome the specification demands) for every derived definition
        cases, meta = cached_tlc_cases(f"C17{tag}-replay", module, cfg, dpath)
        states += meta["distinct"]
        out = os.path.join(WORK, f"C17-{v.tier}-{tag}-diff.ndjson")
        # 3. derived parser vs hand-written equivalent vs specification
        p = subprocess.run([binp, dpath, cases, out], text=True, capture_output=True, timeout=7200)
        if p.returncode != 0:
            raise ToolError("derive-cases run failed: " + p.stderr[-2000:])
        summ = json.loads(p.stdout.strip().splitlines()[-1])
        total += summ["cases"]
        tdmap = {t["id"]: t for t in tds}
        for m in read_ndjson(out):
            diffs += 1
            dv, hw = m["derived"], m["handwritten"]
            if m["differ"]:
                what = "class" if dv["class"] != hw["class"] else "value" if dv["class"] == "ok" else \
                    ("help_text" if dv["class"] == "stdout" else "error_text")
                sig = {"rule": "derived_differs_from_handwritten", "what": what, "shape": tdmap[m["def"]]["shape"]}
            else:
                sig = {"rule": "both_differ_from_specification", "shape": tdmap[m["def"]]["shape"]}
            v.report(sig, dict(m, typedef=tdmap[m["def"]]))
        samples += [{"typedef": tdmap[c["def"]]["id"], "shape": tdmap[c["def"]]["shape"], "argv": [i["txt"] for i in c["line"]],
                     "expect": c["expect"]["class"]} for c in list(read_ndjson(cases))[50:52]]
    # nested (external) types have no specification-generated lines: derived vs hand-written on lines made of their names
    if nl:
        dpath = os.path.join(WORK, f"C17-{v.tier}-n-defs.ndjson")
        D.write_ndjson(dpath, nl)
        cases = os.path.join(WORK, f"C17-{v.tier}-n-cases.ndjson")
        rnd = random.Random(SEED)
        with open(cases, "w") as w:
            for d in nl:
                leaves = [f for f in d["named"] if f["kind"] != "seq"] + [x for f in d["named"] if f["kind"] == "seq" for x in f["fields"]]
                pool = []
                for it in leaves:
                    for nm in it["shorts"] + it["longs"]:
                        pool += [[nm]] if it["kind"] != "arg" else [[nm, "1"], [nm + "=x"]]
                lines = [["--help"], []] + pool
                for _ in range(40):
                    lines.append([x for g in rnd.sample(pool, min(len(pool), rnd.randint(1, 4))) for x in g])
                for ln in lines:
                    w.write(json.dumps({"def": d["id"], "argv": ln}) + "\n")
        out = os.path.join(WORK, f"C17-{v.tier}-n-diff.ndjson")
        p = subprocess.run([binp, dpath, cases, out], text=True, capture_output=True, timeout=7200)
        if p.returncode != 0:
            raise ToolError("derive-cases run failed: " + p.stderr[-2000:])
        total += json.loads(p.stdout.strip().splitlines()[-1])["cases"]
        tdmap = {t["id"]: t for t in tds}
        for m in read_ndjson(out):
            diffs += 1
            dv, hw = m["derived"], m["handwritten"]
            what = "class" if dv["class"] != hw["class"] else "value" if dv["class"] == "ok" else \
                ("help_text" if dv["class"] == "stdout" else "error_text")
            v.report({"rule": "derived_differs_from_handwritten", "what": what, "shape": "nested"}, dict(m, typedef=tdmap[m["def"]]))
    cov = {"programs": len(tds), "disagreements_checked": total, "samples": samples, "states": states,
           "evaluations": total, "distinct_nontrivial": total, "differences_found": diffs,
           "rule": "seeded family of derived types (named structs with every field type x annotation subset, tuple structs, enums of "
                   "unit/struct variants, enums of command variants); Derive.tla maps each to the definition of the hand-written "
                   "equivalent, TLC enumerates all lines up to maxlen for it, and the derived parser, the hand-written parser and "
                   "the specification's outcome must agree on value, failure class and help/error text"}
    return v.finish("translation_validation", cov, ["the generated crate is compiled with the current bpaf_derive"])


def replay(path):
    r = json.load(open(path))
    print(json.dumps(r["case"], indent=1)[:4000])
    return 0
