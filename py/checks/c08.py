"""C08 - subcommands scope what follows them."""
from vlib import *
import defs as D, cmdline_sig
from cmdline_check import run_cmdline_property, run_tree_groups, merge_cov


def families(tier):
    if tier == "quick":
        return D.cmd_family(SEED + 80, 40, depth=2, maxlen=4, budget=4000) + D.cmd_family(SEED + 81, 10, depth=3, maxlen=4, budget=4000) + \
            D.prepos_family(SEED + 82, 12, maxlen=4, budget=4000) + D.subver_family(SEED + 84, 8, maxlen=3)
    return D.cmd_family(SEED + 80, 150, depth=2, maxlen=5, budget=40000) + D.cmd_family(SEED + 81, 60, depth=3, maxlen=5, budget=40000) + \
        D.prepos_family(SEED + 82, 36, maxlen=5, budget=40000) + D.subver_family(SEED + 84, 20, maxlen=4)


def run(v):
    big = D.cmd_family(SEED + 1080, 40, depth=3, budget=10**9)
    cov = run_cmdline_property(v, families(v.tier), "MC_CmdLine_design.cfg", signature=cmdline_sig.signature, ledger_every=(6 if v.tier == "quick" else 1),
                               driver={"defs": big, "n": 20000 if v.tier == "quick" else 300000, "maxlen": 12, "mutate": 0.6,
                                       "extras": ("help",)})
    q = v.tier == "quick"
    cov = merge_cov(cov, run_tree_groups(v, SEED + 880, 12 if q else 60, 4 if q else 5, 1500 if q else 12000, ("alt", "adj"),
                                         cmdline_sig.signature, ledger_every=3 if q else 1, driver_n=4000 if q else 100000), "tree_groups")
    # a regular subcommand nested in an adjacent one, chained with another adjacent command
    ncov = run_cmdline_property(v, D.nested_in_acmd_family(SEED + 83, 6 if q else 18, maxlen=5 if q else 6, budget=4000 if q else 40000), None,
                                replay_cfg="MC_GroupLine_replay.cfg", module="MC_GroupLine", signature=cmdline_sig.signature,
                                trace_module="GroupLineTrace", name="C08n")
    cov = merge_cov(cov, ncov, "nested_in_adjacent")
    cov["rule"] = ("command trees of depth <= 3 with aliases, short aliases, optional commands and leaf positionals; all lines up "
                   "to maxlen incl. deeper items left of their command name, unknown commands, `--` before a command name, "
                   "help after every command name; ScopeAfterCommand checked by TLC; plus commands whose own level holds choices and adjacent "
                   "groups (TreeLine.tla: TScope - the command's part is its level run on its own on the items after the name)")
    cov["exhaustive"] = True
    return v.finish("model_checking", cov, ["an enclosing level's option right of a subcommand name is outside the quantifier and only counted"])


def replay(path):
    return cmdline_sig.replay_file(path)
