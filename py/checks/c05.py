"""C05 - every command-line item is used exactly once or the run fails."""
from vlib import *
import defs as D, cmdline_sig
from cmdline_check import run_protocol_only, run_cmdline_property, merge_cov
import linegen, suite_trace


def families(tier):
    return D.api_variants(families0(tier), SEED + 5)


def families0(tier):
    q = tier == "quick"
    return families1(tier) + D.edge_family(SEED + 46, 12 if q else 36, maxlen=2 if q else 3) + D.amb_family(SEED + 48, 4 if q else 12, maxlen=3 if q else 4) + \
        D.count_family(SEED + 47, 6 if q else 24, maxlen=3, budget=3000 if q else 20000) + D.nonascii_flag_family(SEED + 49, 12 if q else 48, maxlen=3 if q else 4, budget=2500 if q else 20000)


def families1(tier):
    if tier == "quick":
        return D.conv_family(SEED + 50, 30, max_named=3, maxlen=3, budget=3000, extras=("dd", "unk", "unkshort")) + \
            D.cmd_family(SEED + 51, 15, maxlen=4, budget=3000, extras=("unk", "dd")) + D.pos_family(SEED + 52, 10, budget=3000)
    return D.conv_family(SEED + 50, 150, max_named=4, maxlen=4, budget=30000, extras=("dd", "unk", "unkshort")) + \
        D.cmd_family(SEED + 51, 60, depth=3, maxlen=5, budget=30000, extras=("unk", "dd")) + D.pos_family(SEED + 52, 40, maxlen=5, budget=30000)


def run(v):
    big = D.conv_family(SEED + 1050, 30, max_named=6, maxlen=3, budget=10**9) + D.cmd_family(SEED + 1051, 20, depth=3, budget=10**9)
    cov = run_cmdline_property(v, families(v.tier), "MC_CmdLine_design.cfg", signature=cmdline_sig.signature, ledger_every=(6 if v.tier == "quick" else 1),
                               driver={"defs": big, "n": 20000 if v.tier == "quick" else 300000, "maxlen": 12, "mutate": 0.8})
    # `last` over positional items (an attempt that consumed a word and was rolled back leaves the word where it was)
    lcov = run_cmdline_property(v, D.poslast_family(SEED + 62, maxlen=3 if v.tier == "quick" else 4), None, signature=cmdline_sig.signature, name="C05l")
    cov = merge_cov(cov, lcov, "positional_last")
    # the same property on choices, optional/repeated groups and adjacent groups (GroupLine engine)
    gfam = (D.group_family(SEED, 4, 3000) + D.alt_family(SEED + 53, 15, maxlen=4, budget=3000) + D.adj_family(SEED + 54, 9, maxlen=5, budget=3000) + D.acmd_family(SEED + 55, 6, maxlen=4, budget=3000) + D.acmd_hole_defs(SEED)) if v.tier == "quick" \
        else (D.group_family(SEED, 5, 40000) + D.alt_family(SEED + 53, 80, maxlen=5, budget=40000) + D.adj_family(SEED + 54, 45, maxlen=6, budget=40000) + D.acmd_family(SEED + 55, 30, maxlen=6, budget=40000) + D.acmd_hole_defs(SEED))
    q = v.tier == "quick"
    # groups with a default for the whole group, choices with a positional branch, ties between defaulted branches
    gfam += D.group_fb_family(SEED + 56, 12 if q else 36, maxlen=3 if q else 4, budget=2500 if q else 25000) + \
        D.alt_pos_family(SEED + 57, 8 if q else 40, maxlen=3, budget=2500 if q else 20000) + \
        D.alt_tie_family(SEED + 58, 8 if q else 32, maxlen=3, budget=2500 if q else 20000) + \
        D.gguard_family(SEED + 61, 8 if q else 24, maxlen=4 if q else 5, budget=3000 if q else 30000)
    gbig = D.alt_family(SEED + 1053, 25, budget=10**9) + D.adj_family(SEED + 1054, 18, budget=10**9)
    gcov = run_cmdline_property(v, gfam, None, replay_cfg="MC_GroupLine_replay.cfg", module="MC_GroupLine",
                                signature=cmdline_sig.signature, ledger_every=(6 if v.tier == "quick" else 1), trace_module="GroupLineTrace", name="C05g",
                                driver={"defs": gbig, "n": 10000 if v.tier == "quick" else 200000,
                                        "gen": lambda rnd, d: [("line", linegen.group_line(rnd, d, 0.8))]})
    cov = merge_cov(cov, gcov, "groupline")
    # generic trees beyond the acceptors (any/anywhere, pure, nested groups, adjacent commands with groups): random
    # lines judged by the ledger protocol alone - every item used exactly once or the run fails
    from checks.c04 import wild_defs
    cov.update(run_protocol_only(v, [d for d in wild_defs(SEED + 59, 60 if q else 400)] + D.nested_adj_family(SEED + 60, 8),
                                 8000 if q else 150000, "C05w"))
    # the repository's own test-suite traced with the hooks on (shapes the generators do not produce)
    cov.update(suite_trace.run_suite_trace(v))
    cov["rule"] = ("all lines up to maxlen: every accepted line together with every single insertion/duplication of an unknown "
                   "flag, surplus word, second occurrence of a single-use option and flag=value is in the enumerated set; "
                   "ExactlyOnce/AllDelivered/NoResurrection checked by TLC on the specification")
    cov["exhaustive"] = True
    return v.finish("model_checking", cov, ["two engines: CmdLine.tla (conventional fragment, command trees) and GroupLine.tla (choices, optional/repeated groups, adjacent groups)"])


def replay(path):
    return cmdline_sig.replay_file(path)
