"""C05 - every command-line item is used exactly once or the run fails."""
from vlib import *
import defs as D, cmdline_sig
from cmdline_check import run_cmdline_property


def families(tier):
    if tier == "quick":
        return D.conv_family(SEED + 50, 30, max_named=3, maxlen=3, budget=3000, extras=("dd", "unk", "unkshort")) + \
            D.cmd_family(SEED + 51, 15, maxlen=4, budget=3000, extras=("unk", "dd")) + D.pos_family(SEED + 52, 10, budget=3000)
    return D.conv_family(SEED + 50, 150, max_named=4, maxlen=4, budget=30000, extras=("dd", "unk", "unkshort")) + \
        D.cmd_family(SEED + 51, 60, depth=3, maxlen=5, budget=30000, extras=("unk", "dd")) + D.pos_family(SEED + 52, 40, maxlen=5, budget=30000)


def run(v):
    big = D.conv_family(SEED + 1050, 30, max_named=6, maxlen=3, budget=10**9) + D.cmd_family(SEED + 1051, 20, depth=3, budget=10**9)
    cov = run_cmdline_property(v, families(v.tier), "MC_CmdLine_design.cfg", signature=cmdline_sig.signature,
                               driver={"defs": big, "n": 20000 if v.tier == "quick" else 300000, "maxlen": 12, "mutate": 0.8})
    cov["rule"] = ("all lines up to maxlen: every accepted line together with every single insertion/duplication of an unknown "
                   "flag, surplus word, second occurrence of a single-use option and flag=value is in the enumerated set; "
                   "ExactlyOnce/AllDelivered/NoResurrection checked by TLC on the specification")
    cov["exhaustive"] = True
    return v.finish("model_checking", cov, ["shapes covered by this engine: conventional fragment and command trees; alternatives and adjacent groups are covered by the C07/C19 engines"])


def replay(path):
    return cmdline_sig.replay_file(path)
