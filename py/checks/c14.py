"""C14 - dynamic completion offers real, visible, applicable candidates."""
from vlib import *
import defs as D, cmdline_sig, random
from cmdline_check import sample_cases


def comp_family(seed, n, maxlen=3, budget=2500):
    rnd = random.Random(seed)
    fam = D.conv_family(seed, n // 2, max_named=3, maxlen=maxlen, budget=budget, extras=()) + \
        D.cmd_family(seed + 1, n - n // 2, depth=2, maxlen=maxlen, budget=budget, extras=())
    for d in fam:
        d["alpha"]["clusters"] = False
        d["alpha"]["spells"] = [x for x in d["alpha"]["spells"] if x != "glued"] or ["sep"]
        # some hidden items and user completers
        for lvl in D.all_levels(d):
            for it in lvl["named"]:
                if rnd.random() < 0.2:
                    it["hidden"] = True
                if it["kind"] == "arg" and it["vt"] != "int" and rnd.random() < 0.5:
                    it["completer"] = [f"cv{it['id']}a", f"cv{it['id']}b"]
    return fam + D.prefix_cmd_family(seed + 2, 6)


def expand(cases, out):
    n = 0
    with open(out, "w") as w:
        for c in read_ndjson(cases):
            for comp in c["comps"]:
                w.write(json.dumps({"def": c["def"], "line": c["line"], "partial": comp["p"], "comp": 0,
                                    "expect": {"class": "completion", "must": comp["must"], "may": comp["may"]},
                                    "pending": comp["pending"], "acmds": c["acmds"]}) + "\n")
                n += 1
    return n


def sig(m):
    g, e = m.get("got", {}), m.get("expect", {})
    if g.get("class") != "completion":
        return {"rule": "not_completion_output", "got": g.get("class")}
    cands = g.get("cands", [])
    missing = sorted(set(e.get("must", [])) - set(cands))
    extra = sorted(set(cands) - set(e.get("may", [])))
    # F14: the typed word is exactly a name/alias of sibling k; the choice keeps only the branch that
    # consumed it, which hides its or_else partner(s): k=1 -> sibling 2, k=2 -> sibling 1, k>=3 -> siblings 1..k-1
    ac = m.get("acmds") or []
    hit = [i for i, c in enumerate(ac) if m.get("partial") in c["w"]]
    if missing and not extra and len(hit) == 1:
        k = hit[0]
        hidden = {ac[1]["n"]} if k == 0 and len(ac) > 1 else {ac[0]["n"]} if k == 1 else {c["n"] for c in ac[:k]}
        if set(missing) <= hidden:
            return {"rule": "exact_command_name_hides_or_else_partner"}
    kind = lambda x: "long" if x.startswith("--") else "short" if x.startswith("-") else "word"
    return {"rule": "sandwich", "missing": sorted({kind(x) for x in missing}), "extra": sorted({kind(x) for x in extra}),
            "partial": "fresh" if m.get("partial") == "" else kind(m.get("partial", "")) + ("-exact" if False else ""),
            "pending": bool(m.get("pending"))}


def run(v):
    ensure_dirs()
    hbin = build_harness()
    q = v.tier == "quick"
    fam = comp_family(SEED + 140, 40 if q else 160, maxlen=3 if q else 4, budget=1500 if q else 12000)
    dpath = os.path.join(WORK, f"C14-{v.tier}-defs.ndjson")
    D.write_ndjson(dpath, fam)
    raw, meta = cached_tlc_cases("C14-complete", "MC_CmdLine", "MC_CmdLine_complete.cfg", dpath)
    cases = os.path.join(WORK, f"C14-{v.tier}-cases.ndjson")
    n = expand(raw, cases)
    mm = os.path.join(WORK, f"C14-{v.tier}-mm.ndjson")
    summ = run_replay(hbin, dpath, cases, mm)
    for m in read_ndjson(mm):
        v.report(sig(m), {k: m[k] for k in m if k != "def_full"} | {"def": m.get("def_full", m.get("def"))})
    cov = {"states": meta["distinct"], "transitions": meta["states"], "traces_validated_against_impl": summ["cases"],
           "definitions": len(fam), "completion_requests": n, "impl_classes": summ["classes"],
           "distinct_nontrivial": n,
           "samples": [{"def": c["def"], "line": [i["txt"] for i in c["line"]], "partial": c["partial"], "must": c["expect"]["must"],
                        "may": c["expect"]["may"]} for c in sample_cases(cases, 3, lambda c: len(c["line"]) >= 1 and c["expect"]["must"])],
           "exhaustive": True,
           "rule": "every viable state (a line that can still become a sentence) of every definition x every partial last item "
                   "{fresh, `-`, `--`, long-name prefixes, exact short names, command-name prefixes}; the candidate set must lie "
                   "between MustOffer and MayOffer computed by the specification"}
    return v.finish("model_checking", cov, ["metavariable placeholders (empty replacement) are ignored; revision 0 output format"])


def replay(path):
    return cmdline_sig.replay_file(path)
