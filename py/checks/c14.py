"""C14 - dynamic completion offers real, visible, applicable candidates."""
from vlib import *
import defs as D, cmdline_sig, random
from cmdline_check import sample_cases, parse_rejects
import linegen


def comp_family(seed, n, maxlen=3, budget=2500):
    rnd = random.Random(seed)
    fam = D.conv_family(seed, n // 2, max_named=3, maxlen=maxlen, budget=budget, extras=()) + \
        D.cmd_family(seed + 1, n - n // 2, depth=2, maxlen=maxlen, budget=budget, extras=())
    for d in fam:
        d["alpha"]["clusters"] = False
        d["alpha"]["spells"] = [x for x in d["alpha"]["spells"] if x != "glued"] or ["sep"]
        # some hidden items and user completers
        for lvl in D.all_levels(d):
            for it in lvl["named"]:
                if rnd.random() < 0.2:
                    it["hidden"] = True
                if it["kind"] == "arg" and it["vt"] != "int" and rnd.random() < 0.5:
                    it["completer"] = [f"cv{it['id']}a", f"cv{it['id']}b"]
                elif it["kind"] == "arg" and rnd.random() < 0.4:
                    # values completed by the shell (`complete_shell`): the item is still offered by name
                    it["complete_shell"] = rnd.choice(["file", "dir", "nothing"])
            # some commands are hidden: they parse, and are never offered
            for c in lvl["tail"].get("cmds", []):
                if rnd.random() < 0.15:
                    c["hidden"] = True
    # a value is being typed while another argument, whose completer would recognise ITS value, is already on the line:
    # only the completer of the item being typed may speak (the words are prefixes of every completer's values)
    for i in range(6):
        a = D.ar("a0", "opt" if i % 2 else "many", "str", "--aa", "-a")
        b = D.ar("b0", "opt", "str", "--bb")
        c = D.ar("c0", "opt", "str", "--cc")
        b["completer"] = ["cvb0a", "cvb0b"]
        if i % 3 == 1:
            a["completer"] = ["cva0a"]
        if i % 3 == 2:
            c["completer"] = ["cvc0a", "cvc0b"]
        named = [a, b] if i < 2 else [a, c, b] if i < 4 else [b, a]
        d = D.mkdef(f"compval{seed}_{i}", D.level(named, D.NOTAIL if i % 2 else D.postail(D.pos("p0", "opt"))), maxlen=maxlen,
                    extras=(), spells=("sep",), words=("cv",))
        d["alpha"]["clusters"] = False
        D.trim_to_budget(d, budget)
        fam.append(d)
    return fam + D.prefix_cmd_family(seed + 2, 6)


def group_comp_family(seed, n, budget):
    rnd = random.Random(seed)
    fam = D.alt_family(seed, n // 2, maxlen=3, budget=budget) + D.adj_family(seed + 1, n // 4, maxlen=3, budget=budget) + \
        D.acmd_family(seed + 2, n - n // 2 - n // 4, maxlen=3, budget=budget) + \
        D.alt_pos_family(seed + 3, max(4, n // 4), maxlen=3, budget=budget)     # a positional alternative next to named ones
    # a finished block of named members (the last one a completed argument) followed by the beginning of an outer name
    for i, wrap in enumerate(["many", "one", "opt"]):
        g = D.adjf("g0", wrap, D.rf("h0", "one", "--rect"), D.ar("w", "one", "int", "--ww"), D.ar("h", "one", "str", "--hh"))
        if i == 2:
            g["members"].append(D.sw("q", "--sq"))
        d = D.mkdef(f"adjfin{seed}_{i}", D.level([D.sw("o1", "-v", "--verbose"), g] + ([D.ar("o2", "opt", "str", "--out")] if i else []), D.NOTAIL),
                    maxlen=4, extras=(), spells=("eq",), words=("1",))
        g["members"][1]["completer"] = ["H10", "H20"]
        fam.append(d)
    for k, d in enumerate(fam):
        d["alpha"]["clusters"] = False
        d["alpha"]["spells"] = [x for x in d["alpha"]["spells"] if x != "glued"] or ["sep"]
        # headers, also one inside another (a choice with a header whose members have headers of their own)
        for f in d["named"]:
            if f["kind"] == "alt" and k % 2 == 0:
                f["group_help"] = f"GH-{f['id']}"
                for j, l in enumerate(D.field_leaves(f)):
                    if j % 2 == 0:
                        l["group_help"] = f"GH-{l['id']}"
            elif f["kind"] in ("switch", "reqflag", "arg") and k % 3 == 0:
                f["group_help"] = f"GH-{f['id']}"
        for it in [l for f in d["named"] for l in D.field_leaves(f)]:
            if it["kind"] == "arg" and it["vt"] != "int" and rnd.random() < 0.5:
                it["completer"] = [f"cv{it['id']}a", f"cv{it['id']}b"]
            if rnd.random() < 0.2 and not it["id"].startswith("h"):         # (a hidden first item of an adjacent group is a usage error)
                it["hidden"] = True
    return fam


def tree_comp_family(seed, n, budget):
    rnd = random.Random(seed)
    fam = D.tree_group_family(seed, n, maxlen=3, budget=budget, kinds=("alt", "adj", "acmd"))
    for d in fam:
        d["alpha"]["clusters"] = False
        d["alpha"]["spells"] = ["sep"]
        for c in d["tail"]["cmds"]:
            c["level"]["alpha"]["spells"] = ["sep"]
            for it in [l for f in c["level"]["named"] for l in D.field_leaves(f)]:
                if it["kind"] == "arg" and it["vt"] != "int" and rnd.random() < 0.5:
                    it["completer"] = [f"cv{it['id']}a", f"cv{it['id']}b"]
                if rnd.random() < 0.2 and not it["id"].startswith("h"):     # a hidden first item of an adjacent group is a usage error
                    it["hidden"] = True
    return fam


def expand(cases, out):
    n = 0
    with open(out, "w") as w:
        for c in read_ndjson(cases):
            for comp in c["comps"]:
                w.write(json.dumps({"def": c["def"], "line": c["line"], "partial": comp["p"], "comp": 0,
                                    "expect": {"class": "completion", "must": comp["must"], "may": comp["may"], "hint": comp.get("hint", "")},
                                    "pending": comp["pending"], "acmds": c["acmds"]}) + "\n")
                n += 1
    return n


def foreign_tail(cases, defs, out):
    """derived requests: after the name of a subcommand the user types the name of an ARGUMENT the enclosing level
    declares (that level takes it, wherever it stands) and asks for completion of a fresh word: the names of the
    command that was entered are still to be offered (the lower bound is the one of the same line without that name;
    the values of that argument's completer and its placeholder may be offered too)"""
    dmap = {d["id"]: d for d in defs}
    n = 0
    with open(out, "w") as w:
        for c in read_ndjson(cases):
            d = dmap[c["def"]]
            if c["partial"] != "" or c.get("pending") or d["tail"]["kind"] != "cmd" or not c["line"]:
                continue
            first = c["line"][0]
            cmds = [k for k in d["tail"]["cmds"] if first["t"] == "word" and first["s"] in k["names"] + k["shorts"]]
            if not cmds or any(it["t"] != "word" and it.get("s") in sum([a["shorts"] + a["longs"] for a in d["named"]], []) for it in c["line"]):
                continue
            for a in d["named"]:
                if a["kind"] != "arg" or a.get("hidden") or a.get("adj") or not (a["shorts"] + a["longs"]):
                    continue
                inner = [x for lv in D.all_levels(cmds[0]["level"]) for x in lv["named"]]
                if any(set(a["shorts"] + a["longs"]) & set(x["shorts"] + x["longs"]) for x in inner):
                    continue
                nm = (a["longs"] + a["shorts"])[0]
                e = dict(c["expect"], may=sorted(set(c["expect"]["may"]) | set(a.get("completer") or []) | {"--"}), hint="")
                w.write(json.dumps(dict(c, line=c["line"] + [{"t": "name", "s": nm, "v": "", "txt": nm}], expect=e, foreign=True)) + "\n")
                n += 1
    return n


def random_partial(rnd, d):
    longs, shorts, cmds = [], [], []
    for lvl in D.all_levels(d):
        for it in lvl["named"]:
            longs += it["lchars"][:1]
            shorts += it["shorts"][:1]
        for c in lvl["tail"].get("cmds", []):
            cmds.append(c["nchars"][0])
            cmds += [list(x) for x in c["shorts"]]
    r = rnd.random()
    if r < 0.25 or not (longs or shorts or cmds):
        return {"k": "fresh", "cs": [], "s": ""}
    if r < 0.35:
        return {"k": "dash", "cs": [], "s": ""}
    if r < 0.6 and longs:
        cs = rnd.choice(longs)
        return {"k": "long", "cs": cs[: rnd.randint(0, max(0, len(cs) - 1))], "s": ""}
    if r < 0.75 and shorts:
        return {"k": "short", "cs": [], "s": rnd.choice(shorts)}
    if cmds:
        cs = rnd.choice(cmds)
        return {"k": "word", "cs": cs[: rnd.randint(1, len(cs))], "s": ""}
    return {"k": "fresh", "cs": [], "s": ""}


def hidden_shorts(d):
    return {sh for lvl in D.all_levels(d) for it in lvl["named"] if it.get("hidden") for sh in it["shorts"]}


def partial_text(p):
    return {"fresh": "", "dash": "-", "long": "--" + "".join(p["cs"]), "short": p["s"], "word": "".join(p["cs"])}[p["k"]]


def driver(v, hbin, fam, n):
    """impl -> spec beyond the exhaustive bound: prefixes of generated sentences of larger definitions, a random partial
    last item; the recorded candidate sets are validated by TLC against MustOffer/MayOffer"""
    rnd = random.Random(SEED * 31 + 5)
    dpath = os.path.join(WORK, f"C14-{v.tier}-ddefs.ndjson")
    D.write_ndjson(dpath, fam)
    cpath = os.path.join(WORK, f"C14-{v.tier}-dcases.ndjson")
    reqs = []
    with open(cpath, "w") as w:
        for i in range(n):
            d = fam[i % len(fam)]
            line = linegen.level_sentence(rnd, d)
            line = line[: rnd.randint(0, len(line))]
            # F2 (C02): a hidden short name inside a multi-letter item is not known to the tokeniser - not C14's business
            hs = hidden_shorts(d)
            line = [it for it in line if not (it["t"] == "glued" and it["s"] in hs)]
            p = random_partial(rnd, d)
            reqs.append(p)
            w.write(json.dumps({"def": d["id"], "line": line, "partial": partial_text(p), "comp": 0}) + "\n")
    dump = os.path.join(WORK, f"C14-{v.tier}-dobs.ndjson")
    run_replay(hbin, dpath, cpath, os.path.join(WORK, f"C14-{v.tier}-dmm.ndjson"), dump=dump)
    trace = os.path.join(WORK, f"C14-{v.tier}-dtrace.ndjson")
    recs = []
    with open(trace, "w") as w:
        for r, p in zip(read_ndjson(dump), reqs):
            rec = {"kind": "complete", "def": r["def"], "line": r["line"], "env": {}, "p": p, "class": r["got"]["class"],
                   "cands": r["got"].get("cands") or [], "got": {"class": r["got"]["class"], "kind": "", "vtext": "", "vjson": "", "pjson": "[]"}}
            recs.append((rec, r))
            w.write(json.dumps(rec) + "\n")
    t = run_tlc("CmdLineTrace", "CmdLineTrace.cfg", env={"TRACE": trace, "DEFS": dpath}, workers=1,
                extra_java="-Xss1g -Dtlc2.tool.queue.IStateQueue=StateDeque", timeout=3600)
    for ix, exp in parse_rejects(t["out"]):
        rec, r = recs[ix - 1]
        m = {"def": r["def"], "line": r["line"], "partial": r["partial"], "argv_bytes": r["argv_bytes"], "got": r["got"],
             "expect": {"class": "completion", "must": exp.get("must", []), "may": exp.get("may", [])}, "from": "trace-validation",
             "acmds": exp.get("acmds", [])}
        v.report(sig(m), m)
    if not t["ok"]:
        raise ToolError("completion trace validation did not complete:\n" + t["tail"])
    return len(recs)


def sig(m):
    g, e = m.get("got", {}), m.get("expect", {})
    if g.get("class") != "completion":
        return {"rule": "not_completion_output", "got": g.get("class")}
    cands = g.get("cands", [])
    if e.get("hint") and ("\t" + e["hint"] + "\t") not in (g.get("text") or ""):
        return {"rule": "positional_hint_missing_after_dashdash"}
    missing = sorted(set(e.get("must", [])) - set(cands))
    extra = sorted(set(cands) - set(e.get("may", [])))
    # F14: the typed word is exactly a name/alias of sibling k; the choice keeps only the branch that
    # consumed it, which hides its or_else partner(s): k=1 -> sibling 2, k=2 -> sibling 1, k>=3 -> siblings 1..k-1
    ac = m.get("acmds") or []
    hit = [i for i, c in enumerate(ac) if m.get("partial") in c["w"]]
    if missing and not extra and len(hit) == 1:
        k = hit[0]
        hidden = {ac[1]["n"]} if k == 0 and len(ac) > 1 else {ac[0]["n"]} if k == 1 else {c["n"] for c in ac[:k]}
        if set(missing) <= hidden:
            return {"rule": "exact_command_name_hides_or_else_partner"}
    kind = lambda x: "long" if x.startswith("--") else "short" if x.startswith("-") else "word"
    return {"rule": "sandwich", "missing": sorted({kind(x) for x in missing}), "extra": sorted({kind(x) for x in extra}),
            "partial": "fresh" if m.get("partial") == "" else kind(m.get("partial", "")) + ("-exact" if False else ""),
            "pending": bool(m.get("pending"))}


def run(v):
    ensure_dirs()
    hbin = build_harness()
    q = v.tier == "quick"
    fam = comp_family(SEED + 140, 40 if q else 160, maxlen=3 if q else 4, budget=1500 if q else 12000)
    dpath = os.path.join(WORK, f"C14-{v.tier}-defs.ndjson")
    D.write_ndjson(dpath, fam)
    raw, meta = cached_tlc_cases("C14-complete", "MC_CmdLine", "MC_CmdLine_complete.cfg", dpath)
    cases = os.path.join(WORK, f"C14-{v.tier}-cases.ndjson")
    n = expand(raw, cases)
    mm = os.path.join(WORK, f"C14-{v.tier}-mm.ndjson")
    summ = run_replay(hbin, dpath, cases, mm)
    for m in read_ndjson(mm):
        v.report(sig(m), {k: m[k] for k in m if k != "def_full"} | {"def": m.get("def_full", m.get("def"))})
    # an enclosing level's argument typed inside a subcommand does not hide the subcommand's names
    fcases = os.path.join(WORK, f"C14-{v.tier}-fcases.ndjson")
    fn = foreign_tail(cases, fam, fcases)
    fmm = os.path.join(WORK, f"C14-{v.tier}-fmm.ndjson")
    if fn:
        run_replay(hbin, dpath, fcases, fmm)
        for m in read_ndjson(fmm):
            s_ = sig(m)
            s_["foreign_argument_typed"] = True
            v.report(s_, {k: m[k] for k in m if k != "def_full"} | {"def": m.get("def_full", m.get("def"))})
    # one level with choices, adjacent groups and adjacent subcommands (GroupLine.tla)
    gfam = group_comp_family(SEED + 2140, 16 if q else 60, 1200 if q else 8000)
    gpath = os.path.join(WORK, f"C14-{v.tier}-gdefs.ndjson")
    D.write_ndjson(gpath, gfam)
    graw, gmeta = cached_tlc_cases("C14-gcomplete", "MC_GroupLine", "MC_GroupLine_complete.cfg", gpath)
    gcases = os.path.join(WORK, f"C14-{v.tier}-gcases.ndjson")
    gn = expand(graw, gcases)
    gmm = os.path.join(WORK, f"C14-{v.tier}-gmm.ndjson")
    gsumm = run_replay(hbin, gpath, gcases, gmm)
    for m in read_ndjson(gmm):
        v.report(sig(m), {k: m[k] for k in m if k != "def_full"} | {"def": m.get("def_full", m.get("def"))})
    # the same inside ordinary subcommands (TreeLine.tla)
    tfam = tree_comp_family(SEED + 3140, 10 if q else 40, 1200 if q else 8000)
    tpath = os.path.join(WORK, f"C14-{v.tier}-tdefs.ndjson")
    D.write_ndjson(tpath, tfam)
    traw, tmeta = cached_tlc_cases("C14-tcomplete", "MC_TreeLine", "MC_TreeLine_complete.cfg", tpath,
                                   extra_files=[os.path.join(TLA, "TreeLine.tla")])
    tcases = os.path.join(WORK, f"C14-{v.tier}-tcases.ndjson")
    tn = expand(traw, tcases)
    tmm = os.path.join(WORK, f"C14-{v.tier}-tmm.ndjson")
    tsumm = run_replay(hbin, tpath, tcases, tmm)
    for m in read_ndjson(tmm):
        v.report(sig(m), {k: m[k] for k in m if k != "def_full"} | {"def": m.get("def_full", m.get("def"))})
    tv = driver(v, hbin, comp_family(SEED + 1140, 30 if q else 120, maxlen=2, budget=10**9), 12000 if q else 200000)
    cov = {"driver_requests_validated_by_tlc": tv, "states": meta["distinct"], "transitions": meta["states"], "traces_validated_against_impl": summ["cases"] + gsumm["cases"] + tsumm["cases"],
           "definitions": len(fam) + len(gfam) + len(tfam), "completion_requests": n + gn + tn, "group_states": gmeta["distinct"], "tree_states": tmeta["distinct"], "tree_completion_requests": tn,
           "group_completion_requests": gn, "impl_classes": summ["classes"], "requests_after_an_enclosing_argument": fn,
           "distinct_nontrivial": n,
           "samples": [{"def": c["def"], "line": [i["txt"] for i in c["line"]], "partial": c["partial"], "must": c["expect"]["must"],
                        "may": c["expect"]["may"]} for c in sample_cases(cases, 3, lambda c: len(c["line"]) >= 1 and c["expect"]["must"])],
           "exhaustive": True,
           "rule": "every viable state (a line that can still become a sentence) of every definition x every partial last item "
                   "{fresh, `-`, `--`, long-name prefixes, exact short names, command-name prefixes}; the candidate set must lie "
                   "between MustOffer and MayOffer computed by the specification"}
    return v.finish("model_checking", cov, ["metavariable placeholders (empty replacement) are ignored; revision 0 output format"])


def replay(path):
    return cmdline_sig.replay_file(path)
