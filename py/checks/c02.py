"""C02 - equivalent spellings mean the same thing; values arrive byte-exact."""
from vlib import *
import defs as D, linegen, cmdline_sig
from cmdline_check import run_cmdline_property


def families(tier):
    if tier == "quick":
        return D.spell_family(SEED + 20, 56, maxlen=2, budget=12000)
    return D.spell_family(SEED + 20, 168, maxlen=3, budget=400000, vals=D.HOSTILE)


def sig(m):
    """recorded findings are recognised by the exact spelling feature present on the line"""
    d = m.get("def_full") or {}
    hidden_short = {sh for l in D.all_levels(d) for it in l["named"] if it.get("hidden") for sh in it["shorts"]} if d else set()
    rules = set()
    for it in m.get("line", []):
        t = it.get("t")
        glued_v = it.get("v", "") if t == "glued" or (t == "cluster" and it.get("hasv")) else None
        if glued_v is not None and "%FF" in glued_v:
            rules.add("short_option_glued_value_not_utf8")
        if t == "cluster" and it.get("hasv") and "=" in it.get("v", ""):
            rules.add("cluster_attached_value_contains_equals")
        if (t == "cluster" and (set(it.get("ss", [])) | {it.get("last")}) & hidden_short) or (t == "glued" and it.get("s") in hidden_short):
            rules.add("hidden_short_name_in_multi_letter_item")
    if rules:
        return {"rule": sorted(rules)}
    return cmdline_sig.signature(m)


def gen(rnd, d):
    # one abstract sentence, all spellings of its first argument occurrence
    line = linegen.random_line(rnd, d, 6, 0.3)
    yield "line", line


def run(v):
    big = D.spell_family(SEED + 1020, 56, maxlen=2, budget=10**9, vals=D.HOSTILE)
    cov = run_cmdline_property(v, families(v.tier), "MC_CmdLine_respell.cfg", signature=sig,
                               driver={"defs": big, "n": 10000 if v.tier == "quick" else 200000, "maxlen": 6, "mutate": 0.3})
    cov["rule"] = ("one argument x names {1-byte, 2-byte short; ASCII, non-ASCII long; aliases} x 5 spellings x hostile values "
                   "(empty, `=`, `a=b`, blanks, leading dashes, non-ASCII, non-UTF-8, 300 bytes) x targets {String, OsString, "
                   "PathBuf, u32} x adjacent-restricted or not, alone / among flags (clusters of 2..3) / with a positional; all "
                   "lines up to maxlen; RespellStutters checked by TLC in every state; values compared byte-exactly")
    cov["exhaustive"] = True
    return v.finish("model_checking", cov, ["bytes travel percent-encoded through TLC; the harness decodes them into OS strings"])


def replay(path):
    return cmdline_sig.replay_file(path)
