"""C02 - equivalent spellings mean the same thing; values arrive byte-exact."""
from vlib import *
import defs as D, linegen, cmdline_sig
from cmdline_check import run_cmdline_property


def families(tier):
    if tier == "quick":
        return D.spell_family(SEED + 20, 56, maxlen=2, budget=12000) + D.cmdcluster_family(SEED + 21, 6, maxlen=2) + D.digit_family(SEED + 22, maxlen=2)
    return D.spell_family(SEED + 20, 168, maxlen=3, budget=400000, vals=D.HOSTILE) + D.cmdcluster_family(SEED + 21, 12, maxlen=3) + D.digit_family(SEED + 22, maxlen=3)


def sig(m):
    """recorded findings are recognised by the exact spelling feature present on the line"""
    d = m.get("def_full") or {}
    hidden_short = {sh for l in D.all_levels(d) for it in l["named"] if it.get("hidden") for sh in it["shorts"]} if d else set()
    rules = set()
    for it in m.get("line", []):
        t = it.get("t")
        glued_v = it.get("v", "") if t == "glued" or (t == "cluster" and it.get("hasv")) else None
        # F11 is about multi-letter items *without* `=`: with one, the item is split at the `=` and the bytes survive
        if glued_v is not None and "%FF" in glued_v and "=" not in glued_v:
            rules.add("short_option_glued_value_not_utf8")
        if t == "cluster" and it.get("hasv") and "=" in it.get("v", ""):
            rules.add("cluster_attached_value_contains_equals")
        if (t == "cluster" and (set(it.get("ss", [])) | {it.get("last")}) & hidden_short) or (t == "glued" and it.get("s") in hidden_short):
            rules.add("hidden_short_name_in_multi_letter_item")
    if rules:
        return {"rule": sorted(rules)}
    return cmdline_sig.signature(m)


def gen(rnd, d):
    # one abstract sentence, all spellings of its first argument occurrence
    line = linegen.random_line(rnd, d, 6, 0.3)
    yield "line", line


def tokeniser_in_isolation(v):
    """all byte strings of length <= L over {-,=,a,n,space,0xC3,0xB1,0xFF} as one-item vectors (and after `--`) through the
    real tokeniser (tokens hook); TLC compares the produced items with Lex.tla"""
    import itertools
    hbin = build_harness()
    d = run_tlc("MC_Lex", "MC_Lex.cfg", timeout=600)
    if not d["ok"]:
        raise SpecError("MC_Lex failed:\n" + d["tail"])
    # declared shorts: flags v, c ; arguments n, ñ ; long names name, näm
    df = D.mkdef("lexdef", D.level([D.sw("f1", "-v"), D.rf("f2", "count", "-c"), D.ar("a1", "opt", "os", "-n", "--name"),
                                   D.ar("a2", "many", "os", "-%C3%B1", "--n%C3%A4m")], D.postail(D.pos("p0", "many", vt="os"))), maxlen=1)
    dpath = os.path.join(WORK, f"C02-{v.tier}-lexdef.json")
    json.dump(df, open(dpath, "w"))
    alphabet = [45, 61, 97, 110, 118, 32, 195, 177, 255]
    L = 4 if v.tier == "quick" else 5
    apath = os.path.join(WORK, f"C02-{v.tier}-argvs.ndjson")
    n = 0
    with open(apath, "w") as w:
        for k in range(0, L + 1):
            for t in itertools.product(alphabet, repeat=k):
                w.write(json.dumps([list(t)]) + "\n")
                n += 1
                if k <= 2:
                    w.write(json.dumps([[45, 45], list(t)]) + "\n")
                    w.write(json.dumps([[45, 110], list(t), [45, 118]]) + "\n")
                    n += 2
    trace = os.path.join(WORK, f"C02-{v.tier}-lextrace.ndjson")
    r = subprocess.run([hbin, "tokens", "--def", dpath, "--argvs", apath, "--out", trace], text=True, capture_output=True, timeout=3600)
    if r.returncode != 0:
        raise ToolError("harness tokens failed: " + r.stderr[-2000:])
    # a value is a value: the glued spelling yields a `word` right after an adjacent short/long, `=` an `argword`
    norm = trace + ".norm"
    with open(norm, "w") as w:
        for rec in read_ndjson(trace):
            toks = rec["toks"]
            for i in range(1, len(toks)):
                if toks[i]["k"] == "word" and toks[i - 1]["k"] in ("short", "long") and toks[i - 1]["adj"]:
                    toks[i] = {"k": "argword", "v": toks[i]["v"]}
            w.write(json.dumps(rec) + "\n")
    trace = norm
    t = run_tlc("LexTrace", "LexTrace.cfg", env={"TRACE": trace}, workers=1,
                extra_java="-Xss1g -Dtlc2.tool.queue.IStateQueue=StateDeque", timeout=3600)
    import re
    recs = None
    for l in open(t["out"], errors="replace"):
        m = re.search(r'<<"REJECT", (\d+), (".*")>>\s*$', l)
        if m:
            if recs is None:
                recs = list(read_ndjson(trace))
            rec = recs[int(m.group(1)) - 1]
            exp = json.loads(json.loads(m.group(2)))
            argv = rec["argv"]
            glued_not_text = any(len(a) > 2 and a[0] == 45 and a[1] != 45 and 61 not in a and 255 in a for a in argv) or \
                any(len(a) > 2 and a[0] == 45 and a[1] != 45 and 61 not in a and not _is_utf8(bytes(a[1:])) for a in argv)
            cluster_eq = any(len(a) > 3 and a[0] == 45 and a[1] in (118, 99) and a[2] != 61 and 61 in a[3:] for a in argv)
            sig = {"rule": ["short_option_glued_value_not_utf8"]} if glued_not_text and not cluster_eq else \
                {"rule": ["cluster_attached_value_contains_equals"]} if cluster_eq and not glued_not_text else \
                {"rule": "tokeniser_differs_from_lex", "first_bytes": argv[0][:2] if argv else []}
            v.report(sig, {"argv_bytes_int": argv, "expect_tokens": exp, "got_tokens": rec["toks"], "amb": rec["amb"]})
    if not t["ok"]:
        raise ToolError("LexTrace did not complete:\n" + t["tail"])
    return {"tokeniser_vectors_validated": n, "lex_design_states": d["distinct"]}


def _is_utf8(b):
    try:
        b.decode("utf-8")
        return True
    except UnicodeDecodeError:
        return False


def run(v):
    big = D.spell_family(SEED + 1020, 56, maxlen=2, budget=10**9, vals=D.HOSTILE)
    cov = run_cmdline_property(v, families(v.tier), "MC_CmdLine_respell.cfg", signature=sig,
                               driver={"defs": big, "n": 10000 if v.tier == "quick" else 200000, "maxlen": 6, "mutate": 0.3})
    cov.update(tokeniser_in_isolation(v))
    cov["rule"] = ("one argument x names {1-byte, 2-byte short; ASCII, non-ASCII long; aliases} x 5 spellings x hostile values "
                   "(empty, `=`, `a=b`, blanks, leading dashes, non-ASCII, non-UTF-8, 300 bytes) x targets {String, OsString, "
                   "PathBuf, u32} x adjacent-restricted or not, alone / among flags (clusters of 2..3) / with a positional; all "
                   "lines up to maxlen; RespellStutters checked by TLC in every state; values compared byte-exactly")
    cov["exhaustive"] = True
    return v.finish("model_checking", cov, ["bytes travel percent-encoded through TLC; the harness decodes them into OS strings"])


def replay(path):
    return cmdline_sig.replay_file(path)
