"""C01 - parsing conforms to the declared command-line grammar."""
from vlib import *
import defs as D
from cmdline_check import run_cmdline_property, merge_cov
import cmdline_sig


def families(tier):
    if tier == "quick":
        return D.api_variants(D.conv_family(SEED, 60, max_named=3, maxlen=3, budget=4000), SEED)
    return D.api_variants(D.conv_family(SEED, 300, max_named=4, maxlen=4, budget=40000), SEED)


def driver(tier):
    big = D.conv_family(SEED + 1000, 40, max_named=6, maxlen=3, budget=10**9)
    return {"defs": big, "n": 20000 if tier == "quick" else 400000, "maxlen": 10, "mutate": 0.6}


def run(v):
    cov = run_cmdline_property(v, families(v.tier), "MC_CmdLine_design.cfg", signature=cmdline_sig.signature,
                               driver=driver(v.tier))
    # the acceptor against a second, declarative formulation of "sentence" (Sentence.tla), same family
    dpath = os.path.join(WORK, f"C01-{v.tier}-defs.ndjson")
    _, sm = cached_tlc_cases("C01-sentence", "MC_Sentence", "MC_Sentence.cfg", dpath, extra_files=[os.path.join(TLA, "Sentence.tla")])
    cov["sentence_iff_ok_states"] = sm["distinct"]
    # a value attached to a name that takes none (`--verbose=x`, `-v=x`) next to free positional slots and subcommands
    q = v.tier == "quick"
    ffam = D.conv_family(SEED + 5, 16 if q else 80, max_named=2, maxlen=3, budget=10**9) + D.pos_family(SEED + 6, 12 if q else 60, maxlen=3, budget=10**9) + \
        D.cmd_family(SEED + 7, 8 if q else 40, depth=2, maxlen=3, budget=10**9)
    for d in ffam:
        d["alpha"]["flageq"] = True
        d["alpha"]["clusters"] = False
        D.trim_to_budget(d, 3000 if q else 30000)
    ffam += D.count_family(SEED + 8, 12 if q else 36, maxlen=3 if q else 4, budget=3000 if q else 30000)
    fcov = run_cmdline_property(v, ffam, None, signature=cmdline_sig.signature, name="C01f")
    cov = merge_cov(cov, fcov, "flag_with_value")
    # batteries: two repeated flags read as one number, a table index, the cargo subcommand's name leading the line
    bcov = run_cmdline_property(v, D.battery_family(SEED + 9, 16 if q else 64, maxlen=3 if q else 4, budget=3000 if q else 30000),
                                "MC_CmdLine_design.cfg", signature=cmdline_sig.signature, name="C01b")
    cov = merge_cov(cov, bcov, "batteries")
    # spellings at the edges: empty attached values, several short names per item inside bundles, values that are not text
    # ... and names of one level of which one is the beginning of another
    px = D.prefix_family(SEED + 11, maxlen=3 if q else 4)
    ecov = run_cmdline_property(v, D.edge_family(SEED + 10, 18 if q else 54, maxlen=2 if q else 3) + (px[1::3] if q else px),
                                "MC_CmdLine_design.cfg", signature=cmdline_sig.signature, name="C01e")
    cov = merge_cov(cov, ecov, "edges")
    cov["rule"] = ("every line over each definition's alphabet up to its maxlen, enumerated by TLC; non-trivial = "
                   "non-empty line inside the property's quantifier; driver lines are generated sentences and their mutations")
    cov["exhaustive"] = True
    return v.finish("model_checking", cov,
                    ["TLC explores all lines up to the per-definition bound; beyond it the driver samples",
                     "the dynamic builder maps a definition to the bpaf combinators it names",
                     "an enclosing level's option typed right of a subcommand name is outside the quantifier"])


def replay(path):
    return cmdline_sig.replay_file(path)
