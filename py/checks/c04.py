"""C04 - running a parser is total, terminating and pure."""
from vlib import *
import defs as D, random, re, select, signal
from checks.c16 import pe

HOSTILE_ARGS = ["", "-", "--", "=", "-=", "--=x", "-%FF", "--%FF=1", "--name=%FF", "-a" * 1, "-" + "a" * 1000, "--" + "b" * 300,
                "v" * 10000, "x%09y", "some%09thing", "--num=1%C2%A0000", "%0D", "a%0Ab", "@any", "@", "-@", "--help", "-h", "-V",
                "--version", "--help=x", "-hh", "%E2%80%8B", "-%C3%B1", "--%C3%A4", "0", "-1", "--", "--", "1", "x", "one", "two"]


def wild_defs(seed, n):
    """generic trees beyond the modelled fragment: any/pure/fail, nested groups, adjacent commands"""
    rnd = random.Random(seed)
    out = []
    for i in range(n):
        letters = iter("abcdefgijklmnopqrstuvwyz")
        def lf(prefix):
            L = next(letters)
            k = rnd.choice(["sw", "rf", "arg", "argm", "argo"])
            if k == "sw":
                return D.sw(prefix + L, f"-{L}", f"--{L}{L}")
            if k == "rf":
                return D.rf(prefix + L, rnd.choice(["one", "count", "many"]), f"-{L}")
            return D.ar(prefix + L, {"arg": "one", "argm": "many", "argo": "opt"}[k], rnd.choice(["str", "int", "os"]), f"--{L}arg", f"-{L}")
        named = [lf("n") for _ in range(rnd.randint(0, 3))]
        r = rnd.random()
        if r < 0.25:
            named.append(D.adjf("g0", rnd.choice(["one", "opt", "many"]), D.rf("h0", "one", "--point"), D.posm("x", "int"), D.posm("y")))
        elif r < 0.45:
            named.append(D.altf("g1", rnd.choice(["one", "opt", "many", "some"]), D.branch(lf("b")), D.branch(lf("b"), lf("c"))))
        elif r < 0.55:
            named.append({"kind": "any", "id": "any0", "anywhere": True, "arity": rnd.choice(["opt", "many"]), "help": "HELP-any"})
        elif r < 0.62:
            named.append({"kind": "pure", "id": "pu"})
        elif r < 0.72:
            # gcc-style defines: an adjacent group that starts with `any` (`-Dname=value` is two items for bpaf) and a file
            named.append({"kind": "seq", "id": "dseq", "adjacent": True, "arity": rnd.choice(["many", "opt"]), "help": "",
                          "fields": [{"kind": "any", "id": "anyd", "prefix": "-D", "anywhere": True, "arity": "one", "help": "HELP-anyd"},
                                     D.posm("df")]})
        elif r < 0.8:
            # headers inside headers: a group with a header that holds an adjacent group whose member has its own header,
            # directly followed by another group with a header (or by a plain item)
            inner = D.adjf("gh", rnd.choice(["one", "opt", "many"]), D.rf("hh", "one", "--pt"), D.posm("hx"))
            inner["members"][0]["group_help"] = "GROUP-inner"
            named.append({"kind": "seq", "id": "go", "arity": "one", "help": "", "group_help": "GROUP-outer", "fields": [inner]})
            if rnd.random() < 0.5:
                named.append(lf("m"))
            named.append({"kind": "seq", "id": "g2", "arity": "one", "help": "", "group_help": "GROUP-second", "fields": [lf("q")]})
            # a header may be a Doc of several styled fragments
            if rnd.random() < 0.6:
                g = rnd.choice([x for x in named if x.get("group_help")])
                g["group_help"] += " of several styled words"
                g["gh_cuts"] = sorted(rnd.sample([i for i in range(1, len(g["group_help"])) if g["group_help"][i - 1] == " "], rnd.randint(1, 3)))
        for it in named:
            if rnd.random() < 0.15:
                it["hidden"] = True
            if it.get("help") and rnd.random() < 0.2:
                it["help"] = pe(rnd.choice(["tab\there", "nbsp x", "cr\rx", "multi\n\npara\n code", "<b>&", "\\fB.x", "'q\"", ""]))
        t = rnd.random()
        if t < 0.3:
            tail = D.postail(D.pos("p0", rnd.choice(["opt", "many", "one", "some"]), rnd.choice(["any", "strict", "non_strict"])))
        elif t < 0.7:
            sub_named = [lf("s") for _ in range(rnd.randint(0, 2))]
            if rnd.random() < 0.5:
                sub_named.append(D.adjf("g2", "many", D.rf("h2", "one", "--pt"), D.posm("u", "int"), D.posm("w", "int")))
            sub = D.level(sub_named, rnd.choice([D.NOTAIL, D.postail(D.pos("sp", "many"))]), version=rnd.random() < 0.3,
                          ftu=rnd.random() < 0.3)
            c1 = D.cmd(["draw", "dr"], sub, shorts=["d"], adjacent=rnd.random() < 0.5)
            c2 = D.cmd("rest", D.level([], D.NOTAIL))
            tail = D.cmdtail([c1, c2], optional=rnd.random() < 0.5)
        else:
            tail = D.NOTAIL
            if rnd.random() < 0.4:
                # a catch-all at the end of the line (`any("REST", Some).many()`): whatever is left, empty strings included
                named.append({"kind": "any", "id": "rest", "any_all": True, "anywhere": False, "arity": rnd.choice(["many", "opt", "one"]), "help": "HELP-rest"})
        lvl = D.level(named, tail, version=rnd.random() < 0.4, ftu=rnd.random() < 0.2)
        # the help / version flags are ordinary named flags: they may be given a variable to fall back to
        if rnd.random() < 0.15:
            lvl["help_flag"] = {"shorts": ["-h"], "longs": ["--help"], "help": "HELP-h", "env": "BPAF_VERIF_HELPVAR"}
        if lvl["version"] and rnd.random() < 0.2:
            lvl["version_flag"] = {"shorts": ["-V"], "longs": ["--version"], "help": "HELP-V", "env": "BPAF_VERIF_VERVAR"}
        if rnd.random() < 0.3:
            lvl["descr"] = pe(rnd.choice(["DESCR plain", "tab\tin descr", "two\n\nparagraphs"]))
        out.append(D.mkdef(f"wild{seed}_{i}", lvl, maxlen=1))
    return out


def vocabulary(d):
    v = []
    def walk(lvl):
        for f in lvl["named"]:
            if f.get("kind") == "seq":
                for x in f["fields"]:
                    if x.get("kind") == "any" and x.get("prefix"):
                        v.extend([x["prefix"] + "n=1", x["prefix"] + "n", x["prefix"] + "=", x["prefix"]])
                    elif x.get("kind") in ("switch", "reqflag", "arg"):
                        v.extend(x["shorts"] + x["longs"])
                    elif x.get("kind") == "adj":
                        v.extend(x["head"]["shorts"] + x["head"]["longs"])
            for it in (D.field_leaves(f) if f["kind"] in ("switch", "reqflag", "arg", "alt", "adj") else []):
                for n in it["shorts"] + it["longs"]:
                    v.append(n)
                    if it["kind"] == "arg":
                        v.extend([n + "=1", n + "=x"])
        for c in lvl["tail"].get("cmds", []):
            v.extend(c["names"] + c["shorts"])
            walk(c["level"])
    walk(d)
    return v


def sessions(seed, fams, ncalls):
    rnd = random.Random(seed)
    out = []
    for d in fams:
        voc = vocabulary(d) + ["1", "x", "2"]
        # near misses of the declared names (what the "did you mean" machinery compares): a non-ASCII first or last
        # character, the dashes dropped, another script, a byte that is not text
        longs = [x[2:] for x in voc if x.startswith("--") and "=" not in x and len(x) > 3]
        words = [x for x in voc if x and x[0] not in "-@" and "=" not in x and len(x) > 2]
        near = []
        for n in longs[:4] + words[:3]:
            near += ["%C3%B1" + n[1:], "%C3%BC" + n, n[:-1] + "%C3%A9", "--" + n[:-1] + "%C3%A9", "%FF" + n[1:], n[:1] + "%E4%B8%AD" + n[2:],
                     "%D0%B4%D0%BE%D0%B1%D0%B0%D0%B2%D0%B8%D1%82%D1%8C-" + n]
        voc_near = near
        calls = []
        letters = [x[1:] for x in voc if len(x) >= 2 and x[0] == "-" and x[1] != "-" and "=" not in x]
        def cluster():
            # several declared short names in one item, in any order, sometimes with a value glued on
            return "-" + "".join(rnd.choice(letters) for _ in range(rnd.randint(2, 4))) + rnd.choice(["", "", "1", "=x"])
        def one():
            r = rnd.random()
            if r < 0.15 and letters:
                return cluster()
            if r < 0.25 and voc_near:
                return rnd.choice(voc_near)
            return rnd.choice(voc) if r < 0.8 else rnd.choice(HOSTILE_ARGS)
        def argv():
            k = rnd.choice([0, 1, 1, 2, 2, 3, 4, 6])
            return [one() for _ in range(k)]
        base = []
        for _ in range(ncalls):
            r = rnd.random()
            if r < 0.55:
                base.append({"op": "parse", "argv": argv()})
            elif r < 0.65:
                base.append({"op": "parse", "argv": argv() + ["--help"] + ([] if rnd.random() < 0.5 else ["--help"])})
            elif r < 0.9:
                a = argv() + [rnd.choice(["", "-", "--", "x", "--h", rnd.choice(voc)])]
                base.append({"op": "complete", "argv": a, "rev": rnd.choice([0, 0, 1, 7, 8, 9]), "named": rnd.random() < 0.7})
            else:
                base.append({"op": "doc", "fmt": rnd.choice(["markdown", "html", "manpage"])})
        # history: every call is made again later, interleaved with the others
        again = list(base)
        rnd.shuffle(again)
        calls = base + again
        # the variables the definition declares are set (or not) for the whole session
        env = {k: rnd.choice(["1", "x", "UNSET"]) for k in sorted(declared_vars(d))} if rnd.random() < 0.6 else {}
        out.append({"def": d, "calls": calls, "env": env})
    return out


def declared_vars(x):
    out = set()
    if isinstance(x, dict):
        for k, v in x.items():
            if k in ("env", "env2") and isinstance(v, str) and v:
                out.add(v)
            else:
                out |= declared_vars(v)
    elif isinstance(x, list):
        for v in x:
            out |= declared_vars(v)
    return out


def key_of(c):
    return json.dumps(c, sort_keys=True)


def drive(hbin, spath, n_sessions, per_call_timeout=20, max_stuck=4):
    """run the session file in a child process under a watchdog; returns event tuples.  After a few calls that did
    not return the exploration stops (each costs the full watchdog time and the verdict is already decided)"""
    events = []
    start = 0
    stuck = 0
    confirming = None     # a session whose apparent hang is being confirmed with a four times longer watchdog
    while start < n_sessions and stuck < max_stuck:
        p = subprocess.Popen([hbin, "session", "--sessions", spath, "--start", str(start)], stdout=subprocess.PIPE,
                             stderr=subprocess.DEVNULL, text=True, bufsize=1)
        cur = None       # (session, k) announced and not finished
        sess = start
        ended = False
        retry = False
        while True:
            r, _, _ = select.select([p.stdout], [], [], per_call_timeout * (4 if confirming == sess else 1))
            if not r:
                p.kill()
                p.wait()
                if confirming != sess:
                    # a busy machine can stall a child for a while: the verdict needs the same point to stall again
                    confirming = sess
                    events[:] = [e for e in events if not (e[0] == "end" and e[1] == sess)]
                    retry = True
                    break
                events.append(("hang", cur if cur else (sess, -1)))
                stuck += 1
                break
            line = p.stdout.readline()
            if line == "":
                rc = p.wait()
                if cur is not None:
                    events.append(("exit", cur, rc))
                    stuck += 1
                else:
                    ended = True
                break
            parts = line.rstrip("\n").split(" ", 5)
            if parts[0] == "SESSION":
                sess = int(parts[1])
            elif parts[0] == "SKIP":
                events.append(("skip", int(parts[1]), line.strip()))
            elif parts[0] == "BEGIN":
                cur = (int(parts[1]), int(parts[2]))
            elif parts[0] == "END":
                events.append(("end", int(parts[1]), int(parts[2]), parts[3], parts[4], parts[5] if len(parts) > 5 else ""))
                cur = None
        if ended:
            break
        if retry:
            start = sess
            continue
        start = (cur[0] if cur else sess) + 1     # the session that hung / exited is abandoned
    return events


def run(v):
    ensure_dirs()
    hbin = build_harness()
    d = run_tlc("MC_History", "MC_History.cfg", timeout=300)
    if not d["ok"]:
        raise SpecError("History.tla fails its design check:\n" + d["tail"])
    q = v.tier == "quick"
    fams = wild_defs(SEED + 40, 160 if q else 3000) + D.conv_family(SEED + 41, 10 if q else 80, budget=10**9) + \
        D.cmd_family(SEED + 42, 10 if q else 80, depth=3, budget=10**9) + D.alt_family(SEED + 43, 8 if q else 60, budget=10**9) + \
        D.adj_family(SEED + 44, 8 if q else 60, budget=10**9) + D.spell_family(SEED + 45, 7 if q else 28, budget=10**9) + \
        D.amb_family(SEED + 46, 3) + [D.mkdef("empty", D.level([], D.NOTAIL), maxlen=1)] + \
        [D.mkdef("ambnonascii", D.level([D.sw("a", "-%C3%B1"), D.sw("v", "-v")], D.cmdtail([D.cmd("one", D.level([D.ar("b", "opt", "str", "-%C3%B1")], D.NOTAIL))], optional=True)), maxlen=1),
         D.mkdef("ambnonascii2", D.level([D.altf("g0", "opt", D.branch(D.rf("x", "one", "-%C3%BC")), D.branch(D.ar("y", "one", "str", "-%C3%BC")))], D.NOTAIL), maxlen=1)] + \
        D.tree_group_family(SEED + 47, 12 if q else 60, budget=10**9) + D.alt_pos_family(SEED + 48, 8 if q else 40, budget=10**9) + \
        D.alt_env_family(SEED + 49, 6 if q else 30, budget=10**9) + D.flagguard_family(SEED + 50, 6 if q else 18) + \
        D.catch_family(SEED + 51, 6 if q else 18) + D.acmd_family(SEED + 52, 9 if q else 45, budget=10**9)
    D.api_variants(fams, SEED + 53)
    sess = sessions(SEED, fams, 100 if q else 150)
    spath = os.path.join(WORK, f"C04-{v.tier}-sessions.ndjson")
    with open(spath, "w") as w:
        for s in sess:
            w.write(json.dumps(s) + "\n")
    t0 = time.time()
    events = drive(hbin, spath, len(sess))
    trace = os.path.join(WORK, f"C04-{v.tier}-trace.ndjson")
    ncalls = skipped = 0
    recs = []
    with open(trace, "w") as w:
        for e in events:
            if e[0] == "end":
                _, si, k, cls, h, txt = e
                c = sess[si]["calls"][k]
                r = {"session": si, "k": k, "key": key_of(c), "op": c["op"], "class": cls, "hash": h}
                recs.append((r, txt))
                w.write(json.dumps(r) + "\n")
                ncalls += 1
            elif e[0] == "skip":
                skipped += 1
            elif e[0] in ("hang", "exit"):
                si, k = e[1] if e[1] else (-1, -1)
                c = sess[si]["calls"][k] if si >= 0 and k >= 0 else ({"op": "setup (build + help probe)"} if si >= 0 else {})
                v.report({"rule": "call_did_not_return", "how": e[0], "op": c.get("op"), "rev": c.get("rev"), "named": c.get("named")},
                         {"def": sess[si]["def"] if si >= 0 else None, "call": c, "session": si, "k": k})
    t = run_tlc("HistoryTrace", "HistoryTrace.cfg", env={"TRACE": trace}, workers=1,
                extra_java="-Xss1g -Dtlc2.tool.queue.IStateQueue=StateDeque", timeout=3600)
    for l in open(t["out"], errors="replace"):
        m = re.search(r'<<"REJECT", (\d+), "(\w+)">>', l)
        if m:
            r, txt = recs[int(m.group(1)) - 1]
            c = sess[r["session"]]["calls"][r["k"]]
            v.report({"rule": "history_" + m.group(2), "op": r["op"], "class": r["class"], "rev": c.get("rev"), "named": c.get("named")},
                     {"def": sess[r["session"]]["def"], "call": c, "class": r["class"], "text": txt, "session": r["session"], "k": r["k"]})
    if not t["ok"]:
        raise ToolError("HistoryTrace did not complete:\n" + t["tail"])
    classes = {}
    for r, _ in recs:
        classes[r["op"] + ":" + r["class"]] = classes.get(r["op"] + ":" + r["class"], 0) + 1
    distinct = len({(r["session"], r["key"]) for r, _ in recs})
    cov = {"evaluations": ncalls, "distinct_nontrivial": distinct, "definitions": len(fams), "sessions": len(sess),
           "definitions_rejected_by_invariant_filter": skipped, "result_classes": classes, "design_states": d["distinct"],
           "traces_validated_against_impl": ncalls,
           "samples": [{"session": r["session"], "call": json.loads(r["key"]), "class": r["class"]} for r, _ in recs[7:10]],
           "rule": "sessions on one OptionParser in a watched child process: generic definitions (any/pure, choices, adjacent groups "
                   "and commands, hidden items, control characters in texts) and the modelled families x byte-grammar argument "
                   "vectors x {parse, help, help twice, completion at revisions 0/1/7/8/9 with/without name, markdown/html/manpage}; "
                   "every call is repeated later in the session; each recorded call must be an enabled Answer of History.tla "
                   "(allowed class, identical result on repetition); distinct = (session, call) pairs"}
    return v.finish("exploration", cov, ["watchdog 20 s per call (observed maximum well below 1 s)",
                                         "environment variables are not modified during a session"])


def replay(path):
    r = json.load(open(path))
    print(json.dumps(r["case"], indent=1)[:4000])
    return 0
