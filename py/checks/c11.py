"""C11 - outcome classes map to streams and exit status (real process around OptionParser::run())."""
from vlib import *
import defs as D, cmdline_sig, random


def corpus(tier):
    fam = corpus0(tier)
    # some help texts have a second paragraph: a single `--help` prints the short form, `run()` must print that very
    # form (the one `run_inner` hands back) and not the detailed one
    rnd = random.Random(SEED + 113)
    for d in fam:
        for lvl in D.all_levels(d):
            for it in lvl["named"] + lvl["tail"].get("items", []):
                if rnd.random() < 0.4:
                    D.more(it, rnd)
    return fam


def corpus0(tier):
    q = tier == "quick"
    return (D.conv_family(SEED + 110, 20 if q else 120, max_named=3, maxlen=3, budget=2000, extras=("dd", "unk", "help", "ver")) +
            D.cmd_family(SEED + 111, 12 if q else 80, maxlen=3, budget=2000, extras=("help", "unk", "ver")) +
            D.spell_family(SEED + 112, 8 if q else 40, maxlen=2, budget=3000) +
            D.subver_family(SEED + 113, 8 if q else 20, maxlen=3))


def run(v):
    ensure_dirs()
    hbin = build_harness()
    app = build_harness(bin_name="harness-app")
    fam = corpus(v.tier)
    dpath = os.path.join(WORK, f"C11-{v.tier}-defs.ndjson")
    D.write_ndjson(dpath, fam)
    # design level: the protocol itself
    dr = run_tlc("MC_Process", "MC_Process.cfg", timeout=300)
    if not dr["ok"]:
        raise SpecError("Process.tla violates its own properties:\n" + dr["tail"])
    cases, meta = cached_tlc_cases("C11-replay", "MC_CmdLine", "MC_CmdLine_replay.cfg", dpath)
    # a seeded sample of the specification's cases goes through the OS
    rnd = random.Random(SEED)
    per_def = 50 if v.tier == "quick" else 180
    by = {}
    from checks import c02
    dmap = {d["id"]: d for d in fam}
    def c02_finding(c):   # lines that hit the recorded tokeniser findings F2/F11/F12 are C02's business
        if "rule" in c02.sig(dict(c, def_full=dmap[c["def"]])):
            return True
        for it in c["line"]:
            gv = it.get("v", "") if it["t"] == "glued" or (it["t"] == "cluster" and it.get("hasv")) else None
            if gv is not None and ("%FF" in gv or (it["t"] == "cluster" and "=" in gv)):
                return True
        return False
    for c in read_ndjson(cases):
        if not c02_finding(c):
            by.setdefault(c["def"], []).append(c)
    sel = os.path.join(WORK, f"C11-{v.tier}-sel.ndjson")
    n = 0
    with open(sel, "w") as w:
        for d, cs in by.items():
            pick = cs if len(cs) <= per_def else rnd.sample(cs, per_def)
            for c in pick:
                c["arg0"] = n
                w.write(json.dumps(c) + "\n")
                n += 1
    # completion requests as the shell scripts make them (`app --bpaf-complete-rev=N words.. partial`): whatever the
    # partial word is - also bytes that are not text - the answer is completion output on stdout with status 0
    with open(sel, "a") as w:
        oks = [c for cs in by.values() for c in cs if c["expect"]["class"] == "ok" and not c.get("outside")]
        rnd.shuffle(oks)
        for c in oks[: (150 if v.tier == "quick" else 1500)]:
            words = [i["txt"] for i in c["line"]]
            words = words[: rnd.randint(0, len(words))]
            if "--" in words:
                continue
            part = rnd.choice(["", "-", "--", "x"])
            rev = rnd.choice([1, 7, 8, 9])
            # a word that is not text is still a word being completed when it is the value of an argument that takes
            # arbitrary bytes (OsString / PathBuf)
            osargs = [it for it in dmap[c["def"]]["named"] if it["kind"] == "arg" and it["vt"] in ("os", "path") and not it.get("adj")]
            if osargs and rnd.random() < 0.5:
                it = osargs[0]
                words = [(it["longs"] + it["shorts"])[0]]
                part = rnd.choice(["caf%E9", "%FF", "J%F6rg"])
            w.write(json.dumps({"def": c["def"], "argv": [f"--bpaf-complete-rev={rev}"] + words + [part], "env": {},
                                "expect": {"class": "completion"}, "arg0": n, "outside": False}) + "\n")
            n += 1
    trace = os.path.join(WORK, f"C11-{v.tier}-trace.ndjson")
    r = subprocess.run([hbin, "proc", "--defs", dpath, "--cases", sel, "--app", app, "--out", trace],
                       text=True, capture_output=True, timeout=3600)
    if r.returncode != 0:
        raise ToolError("harness proc failed: " + r.stderr[-2000:])
    runs = json.loads(r.stdout.strip().splitlines()[-1])["runs"]
    t = run_tlc("ProcessTrace", "ProcessTrace.cfg", env={"TRACE": trace}, workers=1,
                extra_java="-Xss1g -Dtlc2.tool.queue.IStateQueue=StateDeque", timeout=1800)
    import re
    recs = None
    rejected = 0
    done = False
    for l in open(t["out"], errors="replace"):
        m = re.search(r'<<"REJECT", (\d+), (\d+)>>', l)
        if m:
            rejected += 1
            if recs is None:
                recs = list(read_ndjson(trace))
            rec = recs[int(m.group(1)) - 1]
            ev = rec["events"][int(m.group(2)) - 1]
            sig = {"rule": "process_event_not_allowed", "pred": rec["pred"]["class"], "event": ev["e"],
                   "detail": ev.get("stream") or str(ev.get("code", ""))}
            v.report(sig, {"def": rec["def"], "argv_bytes": rec["argv"], "arg0": rec["arg0"], "expect": rec["pred"],
                           "got": {"events": rec["events"]}})
    if not t["ok"]:
        raise ToolError("ProcessTrace did not complete:\n" + t["tail"])
    # which outcome class a run ends in depends on the ledger's bookkeeping (`fallback_to_usage` asks whether anything is
    # left): generic trees with choices, commands and `fallback_to_usage` run with the hooks on, judged by LedgerTrace
    from cmdline_check import run_protocol_only
    from checks.c04 import wild_defs
    pcov = run_protocol_only(v, wild_defs(SEED + 114, 60 if v.tier == "quick" else 300), 6000 if v.tier == "quick" else 100000, "C11w")
    # adjacent subcommands with `fallback_to_usage`: the bare name prints the command's usage (stdout, status 0); the name
    # followed by something the command cannot use is a failure (stderr, status 1) - the classes through GroupLine.tla
    from cmdline_check import run_cmdline_property
    q = v.tier == "quick"
    acov = run_cmdline_property(v, D.acmd_ftu_family(SEED + 115, 9 if q else 27, maxlen=4 if q else 5, budget=3000 if q else 30000), None,
                                replay_cfg="MC_GroupLine_replay.cfg", module="MC_GroupLine", signature=cmdline_sig.signature,
                                trace_module="GroupLineTrace", name="C11a")
    pcov["adjacent_command_usage_cases"] = acov.get("traces_validated_against_impl", 0)
    classes = {}
    samples = []
    for rec in read_ndjson(trace):
        classes[rec["pred"]["class"]] = classes.get(rec["pred"]["class"], 0) + 1
        if len(samples) < 3 and rec["pred"]["class"] != "stderr":
            samples.append({"def": rec["def"], "argv": rec["argv"], "arg0": rec["arg0"], "pred_class": rec["pred"]["class"],
                            "events": [e["e"] + (":" + str(e.get("code")) if e["e"] == "exit" else "") for e in rec["events"]]})
    cov = {"evaluations": runs, "distinct_nontrivial": runs - classes.get("stderr", 0) // 2, "samples": samples,
           "definitions": len(fam), "predicted_classes": classes, "design_states": dr["distinct"],
           "traces_validated_against_impl": runs, "rejected_runs": rejected, **pcov,
           "rule": "a seeded sample of the specification's (definition, line) cases executed as a real process (argv through execve, "
                   "argv[0] in {plain, with directories, with dots, non-UTF-8}); each run's events validated by TLC against "
                   "Process.tla with the in-process prediction; distinct = distinct (definition, argv, argv[0]) triples, "
                   "non-trivial = not a plain missing-argument failure (counted conservatively)"}
    return v.finish("exploration", cov, ["stdout/stderr are separate pipes: relative order of the two streams is not observed",
                                         "colour features are off in this build (monochrome output)"])


def replay(path):
    r = json.load(open(path))
    c = r["case"]
    hbin = build_harness()
    app = build_harness(bin_name="harness-app")
    d = os.path.join(WORK, "replay-c11")
    os.makedirs(d, exist_ok=True)
    with open(os.path.join(d, "case.ndjson"), "w") as f:
        f.write(json.dumps({"def": c["def"], "argv": c["argv_bytes"]}) + "\n")
    print("replay of C11 needs the definition file of the run; see the case in", path)
    print(json.dumps(c, indent=1)[:2000])
    return 0
