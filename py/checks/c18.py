"""C18 - environment variables are a fallback below the command line."""
from vlib import *
import defs as D, cmdline_sig
from cmdline_sig import bad_for, alt_env_sig
from cmdline_check import run_cmdline_property, merge_cov


def families(tier):
    if tier == "quick":
        return D.env_family(SEED + 180, 33, maxlen=2, budget=400)
    return D.env_family(SEED + 180, 110, maxlen=3, budget=3000)


NAMES = {}      # def id -> item id -> texts that name the item (its names without dashes are not enough: the spelled names, its variable)


def enrich(cases, out):
    """every case is run twice: as is, and with a variable the parser does not declare set as well; a run that fails
    because an env-backed item is missing must name the item or its variable"""
    n = 0
    with open(out, "w") as w:
        for c in read_ndjson(cases):
            env = c["env"] if isinstance(c["env"], dict) else {}
            c["env"] = env
            why = c["expect"].get("why") or {}
            if c["expect"]["class"] == "stderr" and why.get("k") == "missing" and why.get("id") in NAMES.get(c["def"], {}):
                c["expect"]["carries_any"] = NAMES[c["def"]][why["id"]]
            w.write(json.dumps(c) + "\n")
            c2 = dict(c, env=dict(env, BPAF_VERIF_UNDECLARED="1"), undeclared=True)
            w.write(json.dumps(c2) + "\n")
            n += 1
    return {"cases_with_undeclared_variable": n}


def sig(m):
    """F7 is recognised by its exact shape: an env-backed argument under many/some/last, typed on the
    line, whose variable holds a value that fails conversion or the guard, spec says ok, the parser
    fails with that conversion/guard message.  Everything else gets the generic signature."""
    s = cmdline_sig.signature(m)
    env = m.get("env") or {}
    d = m.get("def_full") or {}
    txt = (m.get("got") or {}).get("text") or ""
    if d and s["expect"] == "ok" and s["got"] == "stderr":
        for lvl in D.all_levels(d):
            for it in lvl["named"]:
                if it["kind"] == "arg" and it["env"] and it["arity"] in ("many", "some", "last") \
                        and bad_for(it, env.get(it["env"])) \
                        and any(x.get("s") in it["shorts"] + it["longs"] for x in m.get("line", [])) \
                        and ("couldn't parse" in txt or f"GUARDMSG-{it['id']}" in txt):
                    return {"rule": "invalid_variable_fails_repeated_argument_although_values_are_typed",
                            "arity": it["arity"]}
    if m.get("undeclared"):
        s["undeclared_set"] = True
    return s


def register_names(fam):
    for d in fam:
        NAMES[d["id"]] = {}
        for lvl in D.all_levels(d):
            for f in lvl["named"]:
                for it in (D.field_leaves(f) if f["kind"] in ("switch", "reqflag", "arg", "alt", "adj") else []):
                    # (`some(message)` fails with the message the program gave it: nothing to demand of that text)
                    if it.get("env") and it.get("arity") != "some":
                        NAMES[d["id"]][it["id"]] = it["shorts"] + it["longs"] + [it["env"]] + ([it["env2"]] if it.get("env2") else [])


def run(v):
    register_names(families(v.tier))
    big = D.env_family(SEED + 1180, 33, budget=10**9)
    for d in big:
        d["alpha"]["envvals"] = ["UNSET", "1", "x", "3", "%FF"]
    cov = run_cmdline_property(v, families(v.tier), "MC_CmdLine_design.cfg", signature=sig, enrich=enrich,
                               driver={"defs": big, "n": 15000 if v.tier == "quick" else 200000, "maxlen": 8, "mutate": 0.5})
    # environment-backed items inside the branches of a choice (GroupLine engine)
    q = v.tier == "quick"
    gfam = D.alt_env_family(SEED + 185, 16 if q else 80, maxlen=2 if q else 3, budget=1500 if q else 12000)
    gsig = alt_env_sig
    gcov = run_cmdline_property(v, gfam, None, replay_cfg="MC_GroupLine_replay.cfg", module="MC_GroupLine", signature=gsig,
                                enrich=enrich, trace_module="GroupLineTrace", name="C18g")
    cov = merge_cov(cov, gcov, "groupline")
    cov["rule"] = ("env-backed switch/req_flag/argument under every arity x line {absent, once, twice, invalid} x variable state "
                   "{unset, valid, unconvertible, guard-failing, non-UTF-8}; every case also with an undeclared variable set; "
                   "initial states of the TLC model range over all variable assignments; the same items as members of the branches of a "
                   "choice (bare/optional/many/some): the line beats the environment across alternatives")
    cov["exhaustive"] = True
    return v.finish("model_checking", cov, ["environment is set inside the single-threaded harness process around each run"])


def replay(path):
    return cmdline_sig.replay_file(path)
