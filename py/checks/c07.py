"""C07 - alternatives are exclusive and chosen by what the user typed."""
from vlib import *
import defs as D, linegen, cmdline_sig
from cmdline_check import run_cmdline_property, run_tree_groups, merge_cov


def families(tier):
    if tier == "quick":
        return D.api_variants(D.alt_family(SEED + 70, 32, maxlen=4, budget=5000) + D.group_family(SEED, 4, 3000), SEED) + \
            D.toggle_family(SEED + 71, 6, maxlen=4, budget=3000) + D.alt_rep_family(SEED + 72, 18, maxlen=4, budget=3000) + \
            D.adj_alt_family(SEED + 73, 9, maxlen=5, budget=4000)
    return D.api_variants(D.alt_family(SEED + 70, 160, maxlen=5, budget=60000) + D.group_family(SEED, 5, 40000), SEED) + \
        D.toggle_family(SEED + 71, 12, maxlen=5, budget=30000) + D.alt_rep_family(SEED + 72, 36, maxlen=5, budget=30000) + \
        D.adj_alt_family(SEED + 73, 24, maxlen=6, budget=40000)


def gen(rnd, d):
    yield "line", linegen.group_line(rnd, d)


def run(v):
    big = D.alt_family(SEED + 1070, 40, maxlen=4, budget=10**9)
    cov = run_cmdline_property(v, families(v.tier), None, replay_cfg="MC_GroupLine_replay.cfg", module="MC_GroupLine",
                               signature=cmdline_sig.signature, ledger_every=(6 if v.tier == "quick" else 1), trace_module="GroupLineTrace",
                               driver={"defs": big, "n": 15000 if v.tier == "quick" else 300000, "gen": gen})
    q = v.tier == "quick"
    cov = merge_cov(cov, run_tree_groups(v, SEED + 780, 10 if q else 50, 4 if q else 5, 1500 if q else 12000, ("alt",),
                                         cmdline_sig.signature, ledger_every=3 if q else 1, driver_n=4000 if q else 100000), "tree_groups")
    # a positional item as one of the branches (`[--all | ID] [NAME]...`)
    pfam = D.alt_pos_family(SEED + 790, 16 if q else 80, maxlen=3 if q else 4, budget=3000 if q else 30000)
    pcov = run_cmdline_property(v, pfam, None, replay_cfg="MC_GroupLine_replay.cfg", module="MC_GroupLine", signature=cmdline_sig.signature,
                                ledger_every=(3 if q else 1), trace_module="GroupLineTrace", name="C07p",
                                driver={"defs": D.alt_pos_family(SEED + 1790, 24, maxlen=4, budget=10**9), "n": 5000 if q else 100000, "gen": gen})
    cov = merge_cov(cov, pcov, "alt_pos")
    # branches that hold environment-backed flags and arguments, the variable set or not: a typed item is still its
    # branch's item (consumed, it decides the choice), the variable alone selects the first branch it satisfies
    efam = D.alt_env_family(SEED + 795, 12 if q else 60, maxlen=2 if q else 3, budget=1500 if q else 12000)
    for d in efam:
        # (values that do not convert are C06's and C18's business - finding F18 lives there)
        d["alpha"]["envvals"] = [x for x in d["alpha"]["envvals"] if x != "x"]
        for it in D.field_leaves(d["named"][-1]):
            it["guard"] = False
    ecov = run_cmdline_property(v, efam, None, replay_cfg="MC_GroupLine_replay.cfg", module="MC_GroupLine",
                                signature=cmdline_sig.signature, trace_module="GroupLineTrace", name="C07e")
    cov = merge_cov(cov, ecov, "alt_env")
    # ties between branches that succeed on nothing; the `choice` function as the entry point
    tfam = D.alt_tie_family(SEED + 791, 16 if q else 64, maxlen=3 if q else 4, budget=2500 if q else 25000)
    tcov = run_cmdline_property(v, tfam, None, replay_cfg="MC_GroupLine_replay.cfg", module="MC_GroupLine", signature=cmdline_sig.signature,
                                trace_module="GroupLineTrace", name="C07t")
    cov = merge_cov(cov, tcov, "alt_tie")
    # choices between fixed words, one a prefix of another
    lfam = D.lit_family(SEED + 793, 12 if q else 48, maxlen=3 if q else 4, budget=2500 if q else 25000)
    lcov = run_cmdline_property(v, lfam, None, replay_cfg="MC_GroupLine_replay.cfg", module="MC_GroupLine", signature=cmdline_sig.signature,
                                trace_module="GroupLineTrace", name="C07l")
    cov = merge_cov(cov, lcov, "literals")
    # branches with short names, several in one item; the choice nested to the right
    sfam = D.alt_short_family(SEED + 794, 15 if q else 60, maxlen=3 if q else 4, budget=3000 if q else 30000)
    scov = run_cmdline_property(v, sfam, None, replay_cfg="MC_GroupLine_replay.cfg", module="MC_GroupLine", signature=cmdline_sig.signature,
                                trace_module="GroupLineTrace", name="C07s")
    cov = merge_cov(cov, scov, "short_bundles")
    # a repeated choice between adjacent subcommands, some without items of their own
    afam = D.acmd_alt_family(SEED + 792, 8 if q else 32, maxlen=4 if q else 5, budget=3000 if q else 30000)
    acov = run_cmdline_property(v, afam, None, replay_cfg="MC_GroupLine_replay.cfg", module="MC_GroupLine", signature=cmdline_sig.signature,
                                ledger_every=(3 if q else 1), trace_module="GroupLineTrace", name="C07a")
    cov = merge_cov(cov, acov, "acmd_alt")
    cov["rule"] = ("choices over 2..4 branches drawn from {req_flag, argument, two-item groups with optional members} under "
                   "bare/optional/many/some, next to other options and positionals; all lines up to maxlen in every order; "
                   "AltExclusive and the greedy-leftmost denotation checked/used by TLC (GroupLine.tla); subcommand "
                   "alternatives are covered by the C08 families; the same choices inside a subcommand (TreeLine.tla); "
                   "choices with a positional branch (the word goes to the choice only when it wins, otherwise to the positionals that follow); "
                   "ties between defaulted branches, also through the `choice` function; repeated choices between adjacent subcommands")
    cov["exhaustive"] = True
    return v.finish("model_checking", cov, ["branches have disjoint names (the property's precondition)"])


def replay(path):
    return cmdline_sig.replay_file(path)
