"""C10 - asking for help or version always wins and never runs the program."""
from vlib import *
import defs as D
from cmdline_check import run_cmdline_property, merge_cov
import linegen
import cmdline_sig, random


def families(tier):
    n, ml, bud = (50, 3, 5000) if tier == "quick" else (250, 4, 50000)
    rnd = random.Random(SEED)
    fam = []
    for i, d in enumerate(D.conv_family(SEED + 10, n, max_named=2 if tier == "quick" else 3, maxlen=ml, budget=10**9,
                                        extras=("dd", "help", "unk"))):
        ex = ["help"]
        ex.append(rnd.choice(["ver", "vershort"]))
        if rnd.random() < 0.5:
            ex.append("helpshort")
        if rnd.random() < 0.6:
            ex.append("dd")
        if rnd.random() < 0.4:
            ex.append("unk")
        if i % 3 == 0:
            D.replace_help_names(d, rnd, 0.5)
            ex += ["althelp", "altver"]
        d["alpha"]["extras"] = ex
        d["alpha"]["clusters"] = False
        D.trim_to_budget(d, bud)
        fam.append(d)
    return fam + D.prepos_family(SEED + 19, 8 if tier == "quick" else 24, maxlen=3 if tier == "quick" else 4, budget=bud,
                                 extras=("help", "ver", "unk")) + D.cmd_or_pos_family(SEED + 13, 8 if tier == "quick" else 24, maxlen=3 if tier == "quick" else 4, budget=bud) + D.amb_family(SEED + 12, 4 if tier == "quick" else 12, maxlen=2 if tier == "quick" else 3)


def run(v):
    cov = run_cmdline_property(v, families(v.tier), "MC_CmdLine_design.cfg", signature=cmdline_sig.signature,
                               driver={"defs": D.conv_family(SEED + 1010, 40, max_named=5, maxlen=3, budget=10**9,
                                                             extras=("dd", "help", "ver", "unk")),
                                       "n": 15000 if v.tier == "quick" else 300000, "maxlen": 10, "mutate": 0.9,
                                       "extras": ("help", "ver")})
    # help next to / inside (failing) adjacent groups and choices (GroupLine engine)
    q = v.tier == "quick"
    gfam = D.adj_family(SEED + 14, 12 if q else 60, maxlen=4 if q else 5, budget=4000 if q else 50000) + \
        D.alt_family(SEED + 15, 8 if q else 40, maxlen=3 if q else 4, budget=4000 if q else 50000)
    # adjacent subcommands: help next to, inside and after their blocks, with an enclosing option in between
    # (a named item declared after a command is a usage error bpaf reports when it renders help: not in this family)
    def cmd_last(d):
        ks = [k for k, f in enumerate(d["named"]) if f["kind"] == "adj" and f["head"]["kind"] == "cmd"]
        return all(k == len(d["named"]) - 1 for k in ks)
    gfam += D.acmd_alt_family(SEED + 20, 6 if q else 24, maxlen=4 if q else 5, budget=4000 if q else 40000)
    gfam += [d for d in D.acmd_family(SEED + 16, 12 if q else 60, maxlen=4 if q else 5, budget=4000 if q else 50000) if cmd_last(d)]
    gfam_alt = D.acmd_with_alt_family(SEED + 18, 6 if q else 18, maxlen=4 if q else 5, budget=6000 if q else 50000)
    for d in gfam:
        d["alpha"]["extras"] = ["help"]
        D.galpha_trim(d, 4000 if q else 50000)
        d["alpha"]["extras"] = ["help"]
    gfam += gfam_alt
    # a positional item declared in front of a name-led adjacent group
    gfam += D.posfirst_family(SEED + 21, 8 if q else 24, maxlen=4 if q else 5, budget=4000 if q else 40000)
    def gsig(m):
        if cmdline_sig.is_f16(m):
            return {"rule": "help_hidden_by_failing_adjacent_command"}
        return cmdline_sig.signature(m)
    gcov = run_cmdline_property(v, gfam, None, replay_cfg="MC_GroupLine_replay.cfg", module="MC_GroupLine",
                                signature=gsig, trace_module="GroupLineTrace", name="C10g")
    cov = merge_cov(cov, gcov, "groupline")
    cov["rule"] = ("every line up to maxlen over alphabets that contain the help and version items at every position "
                   "(after command names, between an argument name and its value, on valid/invalid/incomplete lines); "
                   "non-trivial = non-empty line inside the quantifier")
    cov["exhaustive"] = True
    return v.finish("model_checking", cov,
                    ["help text is compared through the command path on its usage line; version through the configured tag"])


def replay(path):
    return cmdline_sig.replay_file(path)
