"""C06 - absent is not invalid: defaults never mask bad values."""
from vlib import *
import defs as D, cmdline_sig
from cmdline_check import run_cmdline_property, merge_cov
import linegen


def families(tier):
    if tier == "quick":
        fam = D.val_family(SEED + 60, 42, maxlen=3, budget=5000) + D.env_family(SEED + 61, 22, maxlen=2, budget=300)
    else:
        fam = D.val_family(SEED + 60, 200, maxlen=4, budget=60000) + D.env_family(SEED + 61, 66, maxlen=3, budget=3000)
    # `fallback_to_usage` on some levels: usage is printed for *no arguments at all*, never instead of the message
    # about a value that is present and invalid
    import random
    rnd = random.Random(SEED + 69)
    for d in fam:
        for lvl in D.all_levels(d):
            if rnd.random() < 0.4:
                lvl["ftu"] = True
    return fam


def enrich(cases, out):
    """a failing conversion/guard is required to be *carried* by the message when it is the only thing
    wrong with the line, i.e. when the specification accepts the line with that value repaired"""
    table = {}
    rows = list(read_ndjson(cases))
    for c in rows:
        if not isinstance(c.get("env"), dict):
            c["env"] = {}
        table[(c["def"], tuple(i["txt"] for i in c["line"]))] = c["expect"]["class"]
    n = 0
    with open(out, "w") as w:
        for c in rows:
            e = c["expect"]
            why = e.get("why") or {}
            if e["class"] == "stderr" and why.get("k") in ("conv", "guard") and not c.get("outside"):
                bad = why["w"]
                sole = False
                for k, it in enumerate(c["line"]):
                    if it.get("v") == bad and it["t"] in ("eq", "glued"):
                        rep = it["txt"][: len(it["txt"]) - len(bad)] + "1"
                    elif it["t"] == "word" and it["s"] == bad:
                        rep = "1"
                    else:
                        continue
                    key = tuple(rep if j == k else x["txt"] for j, x in enumerate(c["line"]))
                    if table.get((c["def"], key)) == "ok":
                        sole = True
                if sole:
                    n += 1
                    if why["k"] == "conv":
                        e["carries_conv"] = bad
                    else:
                        e["carries_guard"] = why["id"]
            w.write(json.dumps(c) + "\n")
    return {"cases_requiring_carried_text": n}


def sig(m):
    s = cmdline_sig.signature(m)
    e = m.get("expect", {})
    if m.get("got", {}).get("class") == "stderr" and e.get("class") == "stderr":
        s["detail"] = "message_lacks_" + ("conversion_error" if "carries_conv" in e else "guard_message")
    return s


def run(v):
    big = D.val_family(SEED + 1060, 42, budget=10**9)
    cov = run_cmdline_property(v, families(v.tier), "MC_CmdLine_design.cfg", signature=sig, enrich=enrich,
                               driver={"defs": big, "n": 15000 if v.tier == "quick" else 300000, "maxlen": 10, "mutate": 0.9})
    # invalid values inside choices and adjacent groups (GroupLine engine): the run fails, whatever the wrapper
    q = v.tier == "quick"
    gfam = D.alt_family(SEED + 62, 12 if q else 60, maxlen=3 if q else 4, budget=3000 if q else 40000) + \
        D.adj_family(SEED + 63, 9 if q else 45, maxlen=4 if q else 5, budget=3000 if q else 40000) + D.group_family(SEED + 1, 3, 2500)[:8]
    for d in gfam:
        d["alpha"]["words"] = ["1", "x"]
        d["alpha"]["eqvals"] = ["1", "x"]
        D.galpha_trim(d, 3000 if q else 40000)
        if len(d["alpha"]["words"]) == 1:       # keep the invalid value in the alphabet
            d["alpha"]["words"] = ["x"] if d["id"][-1] in "02468" else ["1"]
            d["alpha"]["eqvals"] = list(d["alpha"]["words"])
    gcov = run_cmdline_property(v, gfam, None, replay_cfg="MC_GroupLine_replay.cfg", module="MC_GroupLine",
                                signature=cmdline_sig.signature, trace_module="GroupLineTrace", name="C06g",
                                driver={"defs": D.alt_family(SEED + 1062, 20, budget=10**9) + D.adj_family(SEED + 1063, 12, budget=10**9),
                                        "n": 8000 if q else 150000, "gen": lambda rnd, d: [("line", linegen.group_line(rnd, d, 0.8))]})
    cov = merge_cov(cov, gcov, "groupline")
    # a validation attached to a whole group under a repetition: refused occurrences fail the run with the guard's message
    def enrich_g(cases, out):
        rows = list(read_ndjson(cases))
        table = {(c["def"], tuple(i["txt"] for i in c["line"])): c["expect"]["class"] for c in rows}
        n = 0
        with open(out, "w") as w:
            for c in rows:
                if c["expect"]["class"] == "stderr" and not c.get("outside"):
                    txt = [i["txt"] for i in c["line"]]
                    # the refused value is the only thing wrong with the line: repaired, the specification accepts it
                    if "2" in txt and table.get((c["def"], tuple("1" if t == "2" else t for t in txt))) == "ok":
                        c["expect"]["carries"] = "GUARDMSG-"
                        n += 1
                w.write(json.dumps(c) + "\n")
        return {"cases_requiring_the_guard_message": n}
    ggcov = run_cmdline_property(v, D.gguard_family(SEED + 71, 8 if q else 24, maxlen=4 if q else 5, budget=3000 if q else 30000), None,
                                 replay_cfg="MC_GroupLine_replay.cfg", module="MC_GroupLine", signature=cmdline_sig.signature,
                                 trace_module="GroupLineTrace", name="C06gg", enrich=enrich_g)
    cov = merge_cov(cov, ggcov, "group_guard")
    # environment-backed members of choices: a set-but-invalid variable is not absence
    efam = D.alt_env_family(SEED + 64, 16 if q else 80, maxlen=2 if q else 3, budget=1500 if q else 12000)
    ecov = run_cmdline_property(v, efam, None, replay_cfg="MC_GroupLine_replay.cfg", module="MC_GroupLine",
                                signature=cmdline_sig.alt_env_sig, trace_module="GroupLineTrace", name="C06e")
    cov = merge_cov(cov, ecov, "alt_env")
    # a positional branch of a choice: a word that does not convert fails the run, it never turns into absence
    pfam = D.alt_pos_family(SEED + 66, 12 if q else 60, maxlen=3 if q else 4, budget=3000 if q else 30000) + \
        D.group_fb_family(SEED + 68, 12 if q else 36, maxlen=3 if q else 4, budget=2500 if q else 25000)
    pcov = run_cmdline_property(v, pfam, None, replay_cfg="MC_GroupLine_replay.cfg", module="MC_GroupLine",
                                signature=cmdline_sig.signature, trace_module="GroupLineTrace", name="C06p")
    cov = merge_cov(cov, pcov, "alt_pos")
    # the documented exception: `catch` turns an invalid value into absence (a typed one is then left over)
    cfam = D.count_family(SEED + 70, 12 if q else 36, maxlen=3, budget=3000 if q else 20000) + D.catch_family(SEED + 65, 12 if q else 48, maxlen=2 if q else 3, budget=1500 if q else 12000) + \
        D.flagguard_family(SEED + 67, 12 if q else 36, maxlen=2 if q else 3, budget=800 if q else 5000)
    ccov = run_cmdline_property(v, cfam, None, signature=cmdline_sig.signature, name="C06c")
    cov = merge_cov(cov, ccov, "catch")
    cov["rule"] = ("valued arguments (u32 conversion, guard) under one/opt/many/some/fallback/fallback_with/last at top level, "
                   "with positionals, inside subcommands; all lines up to maxlen over values {valid, guard-failing, unconvertible}; "
                   "message text required to carry the conversion/guard text when the repaired line is accepted")
    cov["exhaustive"] = True
    return v.finish("model_checking", cov, ["FromStr error text is computed by the harness from the same value, never hard-coded"])


def replay(path):
    return cmdline_sig.replay_file(path)
