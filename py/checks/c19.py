"""C19 - adjacent groups consume contiguous blocks only."""
from vlib import *
import defs as D, linegen, cmdline_sig
from cmdline_check import run_cmdline_property, run_tree_groups, merge_cov, run_protocol_only


def families(tier):
    if tier == "quick":
        return D.adj_family(SEED + 190, 24, maxlen=5, budget=5000) + D.acmd_family(SEED + 191, 9, maxlen=4, budget=4000) + D.acmd_hole_defs(SEED) + \
            D.acmd_alt_family(SEED + 192, 6, maxlen=4, budget=3000) + D.adj_alt_family(SEED + 194, 8, maxlen=5, budget=4000) + \
            D.littag_family(SEED + 195, 9, maxlen=4, budget=3000) + D.wide_family(SEED + 196, 6, maxlen=5, budget=4000)
    return D.adj_family(SEED + 190, 90, maxlen=6, budget=80000) + D.acmd_family(SEED + 191, 45, maxlen=6, budget=80000) + D.acmd_hole_defs(SEED) + \
        D.acmd_alt_family(SEED + 192, 24, maxlen=5, budget=40000) + D.adj_alt_family(SEED + 194, 32, maxlen=6, budget=50000) + \
        D.littag_family(SEED + 195, 27, maxlen=5, budget=30000) + D.wide_family(SEED + 196, 18, maxlen=6, budget=40000)


def gen(rnd, d):
    yield "line", linegen.group_line(rnd, d)


def run(v):
    big = D.adj_family(SEED + 1190, 36, maxlen=4, budget=10**9)
    for d in big:
        d["alpha"]["extras"] = ["unk", "dd", "help"]
    def sig(m):
        s = cmdline_sig.signature(m)
        d = m.get("def_full") or {}
        acmd = isinstance(d, dict) and any(f.get("kind") == "adj" and f["head"]["kind"] == "cmd" for f in d.get("named", []))
        if cmdline_sig.is_f16(m):
            return {"rule": "help_hidden_by_failing_adjacent_command"}
        if acmd:
            s["shape"] = "adjacent_command"
        return s
    cov = run_cmdline_property(v, families(v.tier), None, replay_cfg="MC_GroupLine_replay.cfg", module="MC_GroupLine",
                               signature=sig, ledger_every=(6 if v.tier == "quick" else 1), trace_module="GroupLineTrace",
                               driver={"defs": big, "n": 15000 if v.tier == "quick" else 300000, "gen": gen})
    q = v.tier == "quick"
    def tsig(m):
        d = m.get("def_full") or {}
        for c in (d.get("tail", {}).get("cmds", []) if isinstance(d, dict) else []):
            if c["names"][0] in m.get("argv_bytes", [])[:3]:
                return sig(dict(m, def_full=c["level"]))
        return sig(m)
    cov = merge_cov(cov, run_tree_groups(v, SEED + 1980, 12 if q else 60, 4 if q else 5, 1500 if q else 12000, ("adj", "acmd"),
                                         tsig, ledger_every=3 if q else 1, driver_n=4000 if q else 100000), "tree_groups")
    # beyond the acceptors: adjacent groups inside adjacent subcommands / inside choices - judged by the ledger protocol
    cov.update(run_protocol_only(v, D.nested_adj_family(SEED + 193, 16), 8000 if q else 100000, "C19n", phrases=True))
    cov["rule"] = ("group shapes {flag + 2..3 positionals, flag + two named arguments + optional switch} under one/opt/many among "
                   "0..2 other options and a trailing repeated positional; all lines up to maxlen: blocks at every position, "
                   "split by foreign items, cut short, `--`/help inside and next to blocks; AdjContiguous/CutKills checked by TLC; the same "
                   "groups and adjacent subcommands inside an ordinary subcommand, where the scope does not start at the first item (TreeLine.tla)")
    cov["exhaustive"] = True
    return v.finish("model_checking", cov, ["adjacent subcommand chains are not in this family (see DESIGN.md)"])


def replay(path):
    return cmdline_sig.replay_file(path)
