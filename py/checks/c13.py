"""C13 - console rendering never loses text and respects the width."""
from vlib import *
import defs as D, random, re
from checks.c16 import pe

WORDS = ["a", "of", "the", "parser", "übergröße", "naïve", "日本語", "x" * 31, "y" * 47, "z" * 60, "co-op", "e.g.", "--flag", "key=value",
         "path/to/some/file.txt", "tab\there", "(paren)", "q" * 14, "w" * 22, "I", "wörter",
         # characters that occupy no column on a terminal are characters all the same: they count
         "\x1b[1mbold\x1b[0m", "be\x07\x07ll", "u\x1fs\x1fv\x1f"]


ENVVAR, ENVVAL = "BPAF_VERIF_C13", "uno dos\n\ntres cuatro\n\n    cinco"
LATER = "zq"      # every token of a later paragraph of an *item* help text starts with this prefix
WORDS2 = ["a", "of", "the", "parser", "x" * 31, "y" * 47, "z" * 60, "co-op", "--flag", "q" * 14, "w" * 22, "I", "key_value"]


def text(rnd, tag, item=True):
    def words(n):
        return " ".join(rnd.choice(WORDS) for _ in range(n))
    pre = LATER if item else ""
    def words2(n):
        return " ".join(pre + rnd.choice(WORDS2) for _ in range(n)) if item else words(n)
    t = f"P1x{tag} " + words(rnd.randint(1, 14))
    if rnd.random() < 0.3:
        t += "\n " + words(rnd.randint(1, 6))          # hard line break
    r = rnd.random()
    if r < 0.15:
        t += "\n "                                     # the paragraph ends with a hard line break
    elif r < 0.3:
        # the last rendered line of the paragraph is exactly 100 (or 200) columns wide and ends with a blank
        first = t.split("\n")[-1]
        pad = (100 - len(first) % 100 - 1) % 100
        t += " " + "k" * pad + " " if pad > 1 else " "
    if rnd.random() < 0.6:
        t += "\n\n" + f"{pre}P2x{tag} " + words2(rnd.randint(1, 20))
        if rnd.random() < 0.4:
            t += f"\n\n    {pre}code {pre}P2c" + tag + " " + words2(3) + f"\n    {pre}second {pre}" + "c" * rnd.randint(1, 70)
        if rnd.random() < 0.3:
            t += "\n\n" + f"{pre}P2y{tag} " + words2(rnd.randint(1, 8))
    return pe(t)


def cuts(rnd, enc):
    """character offsets at which the help text is handed to bpaf as separate fragments of one Doc (same text)"""
    t = dec_text(enc)
    # (not inside a preformatted block: a change of style in the middle of one is a different document)
    n = t.index("\n\n    ") if "\n\n    " in t else len(t)
    if n < 4 or rnd.random() < 0.5:
        return []
    # fragments start at the beginning of a word (a style change inside a word may be used as a break point)
    starts = [i for i in range(1, n) if t[i - 1] in " \n" and t[i] not in " \n"]
    if not starts:
        return []
    return sorted({rnd.choice(starts) for _ in range(rnd.randint(1, 5))})


def dec_text(enc):
    import urllib.parse
    return urllib.parse.unquote(enc, errors="surrogateescape")


def family(seed, n):
    rnd = random.Random(seed)
    fam = D.conv_family(seed, n // 2, max_named=4, maxlen=2, budget=10**9) + D.cmd_family(seed + 1, n - n // 2, depth=2, maxlen=2, budget=10**9)
    k = 0
    for d in fam:
        for lvl in D.all_levels(d):
            for key in ("descr", "header", "footer"):
                if rnd.random() < 0.5:
                    k += 1
                    lvl[key] = text(rnd, f"{key[0]}{k}")
            for it in lvl["named"]:
                k += 1
                it["help"] = text(rnd, f"n{k}")
                it["help_cuts"] = cuts(rnd, it["help"])
                it["help_all_nested"] = bool(it["help_cuts"]) and rnd.random() < 0.3      # every fragment a Doc of its own
                # the state of an item's variable is part of its help: a value with a blank line in it stays one line
                if k % 4 == 0 and not it.get("env"):
                    it["env"] = ENVVAR
                if rnd.random() < 0.2:
                    it["longs"] = it["longs"] + []      # keep
            # a group header of two paragraphs whose first one has a line break (title, description): the short form
            # keeps the first paragraph of the header and everything of the items under it
            if lvl["named"] and k % 3 == 0:
                it = lvl["named"][(k // 3) % len(lvl["named"])]
                it["group_help"] = pe(f"P1xg{k} title of the group\ndescribed on a second line\n\n{LATER}P2xg{k} {LATER}more {LATER}about {LATER}it")
            for p in lvl["tail"].get("items", []):
                k += 1
                p["help"] = text(rnd, f"p{k}")
                p["help_cuts"] = cuts(rnd, p["help"])
            for c in lvl["tail"].get("cmds", []):
                k += 1
                c["help"] = text(rnd, f"c{k}")
    return fam


def run(v):
    ensure_dirs()
    hbin = build_harness()
    d = run_tlc("WrapDesign", "WrapDesign.cfg", env={"TRACE": "/dev/null"}, timeout=600)
    if not d["ok"]:
        raise SpecError("WrapDesign failed:\n" + d["tail"])
    q = v.tier == "quick"
    fam = family(SEED + 130, 40 if q else 160)
    rnd = random.Random(SEED)
    widths = sorted(set([1, 2, 7, 20, 39, 40, 41, 42, 50, 64, 79, 80, 81, 100, 101, 120, 200, 300] + [rnd.randint(40, 140) for _ in range(8)])) \
        if q else list(range(1, 301))
    dpath = os.path.join(WORK, f"C13-{v.tier}-defs.ndjson")
    D.write_ndjson(dpath, fam)
    trace = os.path.join(WORK, f"C13-{v.tier}-wrap.ndjson")
    tw = [w for w in (50, 97) if w in widths] or widths[len(widths) // 2:][:1]
    r = subprocess.run([hbin, "wrap", "--defs", dpath, "--out", trace, "--widths", ",".join(map(str, widths)),
                        "--text-widths", ",".join(map(str, tw))], text=True, capture_output=True, timeout=7200,
                       env=dict(os.environ, **{ENVVAR: ENVVAL}))
    if r.returncode != 0:
        raise ToolError("harness wrap failed: " + r.stderr[-2000:])
    recs = []
    slim = trace + ".slim"
    nw = ns = 0
    with_text = []
    with open(slim, "w") as w:
        for x in read_ndjson(trace):
            if "panic" in x:
                v.report({"rule": "render_panic", "width_ge_40": x["width"] >= 40}, x)
                continue
            if "text" in x:
                with_text.append({k: x[k] for k in ("def", "doc", "width", "text")})
                del x["text"]
            if x["kind"] == "short":
                if not x["doc"].startswith("help"):
                    continue
                # the short form is the full form without the later paragraphs of the item help texts - token for token
                expect = [t for t in x["full"] if not t.startswith(LATER)]
                p1 = [t for t in x["full"] if t.startswith("P1x")]
                p2 = [t for t in x["full"] if t.startswith(LATER)]
                y = {"kind": "short", "def": x["def"], "doc": x["doc"], "short": x["short"], "p1": p1, "p2": p2, "expect": expect,
                     "width": 100, "refs": "", "got": "", "lines": []}
                ns += 1
            else:
                y = dict(x, short=[], p1=[], p2=[], expect=[])
                nw += 1
            recs.append(y)
            w.write(json.dumps(y) + "\n")
    t = run_tlc("Wrap", "Wrap.cfg", env={"TRACE": slim}, workers=1,
                extra_java="-Xss1g -Dtlc2.tool.queue.IStateQueue=StateDeque", timeout=7200)
    for l in open(t["out"], errors="replace"):
        m = re.search(r'<<"REJECT", (\d+), "(\w+)">>', l)
        if m:
            x = recs[int(m.group(1)) - 1]
            v.report({"rule": "wrap_" + m.group(2), "doc": x["doc"].split(":")[0]},
                     {"def": x["def"], "doc": x["doc"], "width": x["width"], "kind": x["kind"],
                      "lines": [ln for ln in x.get("lines", []) if ln["len"] > x["width"] + 2][:5], "short": x.get("short", [])[:50]})
    if not t["ok"]:
        raise ToolError("Wrap validation did not complete:\n" + t["tail"])
    # the width may also come from OptionParser::max_width: a real process built with `.max_width(w)` and asked for
    # the full help (`--help --help`) prints exactly the rendering of the same document at Display width w
    app = build_harness(bin_name="harness-app")
    dmap = {x["id"]: x for x in fam}
    rnd2 = random.Random(SEED + 7)
    rnd2.shuffle(with_text)
    nproc = 0
    for x in with_text[: (40 if q else 400)]:
        dd = dmap[x["def"]]
        path = [p for p in x["doc"][len("help:"):].split("/") if p]
        lvl = dd
        for pth in path:
            lvl = [c for c in lvl["tail"]["cmds"] if c["names"][0] == pth][0]["level"]
        hn = [n for n in lvl["help_names"] if n.startswith("--")] or lvl["help_names"]
        argv = path + [hn[0], hn[0]]
        env = dict(os.environ, BPAF_VERIF_DEF=json.dumps(dd), BPAF_VERIF_WIDTH=str(x["width"]), **{ENVVAR: ENVVAL})
        try:
            pr = subprocess.run(["app"] + argv, executable=app, env=env, capture_output=True, timeout=30)   # argv[0] = "app"
        except subprocess.TimeoutExpired:
            v.report({"rule": "max_width_process_hangs"}, {"def": dd, "argv": argv, "width": x["width"]})
            continue
        nproc += 1
        got = pr.stdout.decode("utf-8", "replace")
        exp = x["text"]
        if pr.returncode != 0 or got.rstrip("\n") != exp.rstrip("\n"):
            v.report({"rule": "max_width_differs_from_display_width", "status": pr.returncode},
                     {"def": dd, "argv": argv, "width": x["width"], "display": exp[:3000], "process": got[:3000],
                      "stderr": pr.stderr.decode("utf-8", "replace")[:500]})
    cov = {"max_width_process_runs": nproc, "evaluations": nw + ns, "distinct_nontrivial": nw, "definitions": len(fam), "widths": len(widths),
           "renderings_validated": nw, "short_forms_validated": ns, "design_states": d["distinct"],
           "samples": [{"def": x["def"], "doc": x["doc"], "width": x["width"], "lines": len(x["lines"])} for x in recs[3:6]],
           "rule": "help of every command level and three error documents of generated definitions whose texts come from a grammar "
                   "(paragraphs, hard breaks, code blocks, 1..60-character words, non-ASCII, tabs) rendered at each width; every "
                   "rendering accepted by Wrap.tla (content equal to the unwrapped rendering; WidthOK for widths >= 40); short "
                   "form carries the first-paragraph markers only; distinct = (document, width) pairs"}
    return v.finish("exploration", cov, ["the unwrapped reference is width 60000 (format! widths are 16-bit)",
                                         "display width is counted in characters, as bpaf does"])


def replay(path):
    r = json.load(open(path))
    print(json.dumps(r["case"], indent=1)[:3000])
    return 0
