"""C16 - generated documentation (markdown / html / manpage) is complete and well-formed."""
from vlib import *
import defs as D, random, re
from checks.c12 import judge_render

HOSTILE_TEXT = [".TH evil", "'quoted start", "<b>bold</b> & <i>it</i>", "a\\fBb \\(aq", "x\n.SH INJECTED", "para\n\n .lead dot",
                "<script>alert(1)</script>", "`code` *md* _u_ # h", "back\\slash\\", "-dash --ddash", "text\n\n    code <tag> .dot\n    'more",
                "it's", "tab\there", "\n.PP", "a < b > c", "</dl></p>"]


def pe(s):
    out = ""
    for ch in s.encode():
        c = chr(ch)
        out += c if (0x21 <= ch <= 0x7e and c not in '%"\\') else "%%%02X" % ch
    return out


def hostile_family(seed, n):
    rnd = random.Random(seed)
    fam = D.help_family(seed, n)
    import copy
    clean = copy.deepcopy(fam)
    k = 0
    for d in fam:
        for lvl in D.all_levels(d):
            for key in ("descr", "header", "footer"):
                if lvl.get(key) and rnd.random() < 0.6:
                    lvl[key] = lvl[key] + pe(" " + rnd.choice(HOSTILE_TEXT))
            for f in lvl["named"]:
                for it in D.field_leaves(f):
                    if rnd.random() < 0.7:
                        it["help"] = it["help"] + pe(" " + HOSTILE_TEXT[k % len(HOSTILE_TEXT)])
                        k += 1
                if f.get("group_help") and rnd.random() < 0.5:
                    # (also a header of two lines: bpaf renders the first line as the title, the rest as a block)
                    f["group_help"] = f["group_help"] + pe(rnd.choice(["\\fB", " .x", "<u>", "'q", "\nsecond line", "\n.second <line>", "\n", "\n\n"]))
            t = lvl["tail"]
            for p in t.get("items", []):
                if rnd.random() < 0.5:
                    p["help"] = p["help"] + pe(" " + rnd.choice(HOSTILE_TEXT))
            for c in t.get("cmds", []):
                if c["help"] and rnd.random() < 0.5:
                    c["help"] = c["help"] + pe(" " + rnd.choice(HOSTILE_TEXT[:10]))
    return fam, clean


def run(v):
    ensure_dirs()
    hbin = build_harness()
    n = 300 if v.tier == "quick" else 3000
    fam, clean = hostile_family(SEED + 160, n)
    # the specification sees the unique tokens only: strip the hostile suffix from the copy TLC reads
    recs, t = judge_render(v, "C16", hbin, fam, "d", docs=True, spec_fam=clean)
    events = [e for e in judge_render.events if e["kind"] in ("html-events", "manpage-events")]
    epath = os.path.join(WORK, f"C16-{v.tier}-events.ndjson")
    with open(epath, "w") as w:
        for e in events:
            w.write(json.dumps({"def": e["def"], "kind": e["kind"].replace("-events", ""), "events": e["events"]}) + "\n")
    m = run_tlc("Markup", "Markup.cfg", env={"TRACE": epath}, workers=1,
                extra_java="-Xss1g -Dtlc2.tool.queue.IStateQueue=StateDeque", timeout=3000)
    nev = sum(len(e["events"]) for e in events)
    for l in open(m["out"], errors="replace"):
        mm = re.search(r'<<"REJECT", (\d+), (\d+), (".*?"), (".*")>>\s*$', l)
        if mm:
            e = events[int(mm.group(1)) - 1]
            ev = json.loads(json.loads(mm.group(3)))
            sig = {"rule": "markup", "kind": e["kind"], "event": ev.get("e"),
                   "what": (ev.get("tag") or ev.get("req") or "") + "|" + ",".join(sorted(set(x for x in ev.get("esc", []) if x not in ALLOWED_ESC)))}
            v.report(sig, {"def": e["def"], "kind": e["kind"], "event_index": int(mm.group(2)), "event": ev})
    if not m["ok"]:
        raise ToolError("Markup validation did not complete:\n" + m["tail"])
    docs = len([r for r in recs if r["kind"] != "help" and r["path"] == []])
    cov = {"evaluations": len(recs) + len(events), "distinct_nontrivial": len(events), "definitions": len(fam),
           "documents": docs, "levels_checked": len([r for r in recs if r["kind"] != "help"]), "markup_events": nev,
           "states": m["distinct"] + t["distinct"],
           "samples": [{"def": e["def"], "kind": e["kind"], "first_events": e["events"][:6]} for e in events[:2]],
           "rule": "generated definitions (nested commands, groups, wrappers) whose help/description/header/footer/group texts carry "
                   "roff, HTML and markdown metacharacters at line starts and after line breaks; per document: token coverage of "
                   "every reachable level against Listing (HelpModel.tla) and the tag / line-and-escape event stream accepted by "
                   "Markup.tla; distinct = documents lexed"}
    return v.finish("exploration", cov, ["no groff/tidy in the sandbox: the roff and HTML grammars are the ones written in Markup.tla"])


ALLOWED_ESC = {"\\fB", "\\fI", "\\fR", "\\fP", "\\-", "\\\\", "\\&", "\\*(Aq", "\\ "}


def judge_render_docs(v, hbin, fam):
    return judge_render(v, "C16", hbin, fam, "d", docs=True)


def replay(path):
    r = json.load(open(path))
    print(json.dumps(r["case"], indent=1)[:3000])
    return 0
