"""Parser definitions ("programs") shared by the TLA+ specification and the Rust harness.

One JSON document per definition; TLC reads it through Json!ndJsonDeserialize (objects become
records, arrays sequences), the harness builds the real bpaf parser from the same text.  All
record fields the specification touches are always present (TLC has no optional fields)."""
import copy, itertools, json, random


def leaf(id, kind, arity="one", shorts=(), longs=(), vt=None, env="", adj=False, guard=False,
         hidden=False, help=""):
    if vt is None:
        vt = "str" if kind == "arg" else "none"
    if kind == "switch":
        arity = "sw"
    return {"id": id, "kind": kind, "arity": arity, "vt": vt,
            "shorts": list(shorts), "longs": list(longs),
            "letters": [s[1:] for s in shorts], "env": env, "adj": adj, "guard": guard,
            "hidden": hidden, "help": help or f"HELP-{id}", "catch": False,
            "lchars": [list(l[2:]) for l in longs], "completer": [], "metavar": f"MV{id.upper()}"}


def sw(id, *names, **kw):
    return leaf(id, "switch", shorts=[n for n in names if not n.startswith("--")],
                longs=[n for n in names if n.startswith("--")], **kw)


def rf(id, arity, *names, **kw):
    return leaf(id, "reqflag", arity, shorts=[n for n in names if not n.startswith("--")],
                longs=[n for n in names if n.startswith("--")], **kw)


def ar(id, arity, vt, *names, **kw):
    return leaf(id, "arg", arity, vt=vt, shorts=[n for n in names if not n.startswith("--")],
                longs=[n for n in names if n.startswith("--")], **kw)


def pos(id, arity="one", strict="any", vt="str"):
    return {"id": id, "arity": arity, "strict": strict, "vt": vt, "help": f"HELP-{id}", "metavar": f"MV{id.upper()}",
            "hidden": False}


NOTAIL = {"kind": "none"}


def postail(*items):
    return {"kind": "pos", "items": list(items)}


def cmd(names, level, shorts=(), adjacent=False):
    names = [names] if isinstance(names, str) else list(names)
    return {"names": names, "shorts": list(shorts), "level": level, "adjacent": adjacent,
            "help": f"HELP-cmd-{names[0]}", "nchars": [list(n) for n in names]}


def cmdtail(cmds, optional=False, else_pos=()):
    return {"kind": "cmd", "optional": optional, "cmds": list(cmds), "else_pos": list(else_pos)}


def level(named, tail=NOTAIL, version=False, vtag="0", ftu=False, alt_help=False, alt_ver=False):
    """alt_help / alt_ver: the level replaces the names of its help / version flag (help_parser / version_parser)"""
    lv = {"named": list(named), "tail": tail, "version": version, "vtag": vtag, "ftu": ftu,
          "help_names": ["--aide"] if alt_help else ["-h", "--help"],
          "ver_names": ["--vers"] if alt_ver else ["-V", "--version"]}
    if alt_help:
        lv["help_flag"] = {"shorts": [], "longs": ["--aide"], "help": "HELP-aide"}
    if alt_ver:
        lv["version_flag"] = {"shorts": [], "longs": ["--vers"], "help": "HELP-vers"}
    return lv


def alpha(words=("1", "x"), spells=("sep", "eq"), extras=("dd", "help", "unk"), maxlen=3,
          envvals=("UNSET",), clusters=False, eqvals=None, clusters3=False):
    return {"words": list(words), "spells": list(spells), "extras": list(extras),
            "maxlen": maxlen, "envvals": list(envvals), "clusters": clusters,
            "eqvals": list(eqvals if eqvals is not None else words), "clusters3": clusters3,
            "noglue": [v for v in (eqvals if eqvals is not None else words) if v == "" or v.startswith("=")] + [""]}


def mkdef(id, lvl, **alpha_kw):
    d = dict(lvl)
    d["id"] = id
    d["alpha"] = alpha(**alpha_kw)
    return d


def api_variants(fam, seed, p=0.35):
    """the same parser through other entry points of the API (the specification does not see the difference):
    `collect::<Vec<_>>()` for `many()`, the `choice` function for `construct!([..])`"""
    rnd = random.Random(seed)
    for d in fam:
        for lvl in all_levels(d):
            for f in lvl["named"]:
                if f.get("kind") == "alt" and rnd.random() < p:
                    f["via_choice"] = True
                elif f.get("kind") == "alt" and rnd.random() < p:
                    f["via_right_nested"] = True
                if f.get("group_help") and rnd.random() < p:
                    f["via_with_group_help"] = True
                if f.get("kind") == "pure" and rnd.random() < 0.5:
                    f["via_pure_with"] = True
                for it in (field_leaves(f) if f.get("kind") in ("switch", "reqflag", "arg", "alt", "adj") else []):
                    if it.get("arity") == "many" and rnd.random() < p:
                        it["via_collect"] = True
            for q in lvl["tail"].get("items", []):
                if q.get("arity") == "many" and rnd.random() < p:
                    q["via_collect"] = True
                if q.get("group_help") and rnd.random() < p:
                    q["via_with_group_help"] = True
            if lvl.get("usage") and rnd.random() < 0.5:
                lvl["via_with_usage"] = True
    return fam


def all_levels(lvl):
    yield lvl
    if lvl["tail"]["kind"] == "cmd":
        for c in lvl["tail"]["cmds"]:
            yield from all_levels(c["level"])


def alphabet_size(d):
    a = d["alpha"]
    n = len(a["extras"])
    words = set(a["words"])
    for l in all_levels(d):
        for it in l["named"]:
            names = it["shorts"] + it["longs"]
            if it["kind"] != "arg":
                n += len(names)
            else:
                if "sep" in a["spells"]:
                    n += len(names)
                if "eq" in a["spells"]:
                    n += len(names) * len(a["eqvals"])
                if "glued" in a["spells"]:
                    n += len(it["shorts"]) * len(a["eqvals"])
        if a.get("clusters"):
            f = sum(len(it["shorts"]) for it in l["named"] if it["kind"] != "arg")
            g = sum(len(it["shorts"]) for it in l["named"] if it["kind"] == "arg")
            n += f * f + f * g * (len(a["eqvals"]) + 1)
            n += 2 * f * len([x for x in a["extras"] if x in ("vershort", "helpshort")])
        if l["tail"]["kind"] == "cmd":
            for c in l["tail"]["cmds"]:
                words |= set(c["names"]) | set(c["shorts"])
    return n + len(words)


def est_states(d):
    k = alphabet_size(d)
    return sum(k ** i for i in range(d["alpha"]["maxlen"] + 1))


def write_ndjson(path, defs):
    with open(path, "w") as f:
        for d in defs:
            f.write(json.dumps(d, sort_keys=True) + "\n")


# ---------------------------------------------------------------- families

NAMED_POOL = [
    lambda i: sw(f"s{i}", f"-{'abcdefgh'[i]}"),
    lambda i: sw(f"s{i}", f"--sw{i}"),
    lambda i: sw(f"s{i}", f"-{'abcdefgh'[i]}", f"--sw{i}"),
    lambda i: rf(f"r{i}", "one", f"-{'abcdefgh'[i]}"),
    lambda i: rf(f"r{i}", "count", f"-{'abcdefgh'[i]}", f"--rf{i}"),
    lambda i: rf(f"r{i}", "many", f"--rf{i}"),
    lambda i: rf(f"r{i}", "opt", f"--rf{i}"),
    lambda i: ar(f"a{i}", "one", "str", f"-{'abcdefgh'[i]}"),
    lambda i: ar(f"a{i}", "one", "int", f"--ar{i}"),
    lambda i: ar(f"a{i}", "opt", "int", f"-{'abcdefgh'[i]}", f"--ar{i}"),
    lambda i: ar(f"a{i}", "opt", "str", f"--ar{i}", f"--alias{i}"),
    lambda i: ar(f"a{i}", "many", "str", f"-{'abcdefgh'[i]}"),
    lambda i: ar(f"a{i}", "many", "int", f"--ar{i}"),
    lambda i: ar(f"a{i}", "some", "str", f"--ar{i}"),
    lambda i: ar(f"a{i}", "some", "int", f"-{'abcdefgh'[i]}"),
    lambda i: ar(f"a{i}", "fallback", "int", f"--ar{i}"),
    lambda i: ar(f"a{i}", "fallback", "str", f"-{'abcdefgh'[i]}"),
    lambda i: ar(f"a{i}", "last", "int", f"-{'abcdefgh'[i]}", f"--ar{i}"),
    lambda i: ar(f"a{i}", "last", "str", f"--ar{i}"),
    lambda i: ar(f"a{i}", "fallback_with", "str", f"--ar{i}"),
    lambda i: sw(f"s{i}", f"-{'abcdefgh'[i]}", f"-{'ABCDEFGH'[i]}"),
    lambda i: ar(f"a{i}", "opt", "str", f"-{'abcdefgh'[i]}", f"-{'ABCDEFGH'[i]}", f"--ar{i}"),
    lambda i: rf(f"r{i}", "count", f"-{'abcdefgh'[i]}"),
    lambda i: ar(f"a{i}", "many", "str", f"-{'abcdefgh'[i]}", f"--ar{i}"),
]

POS_TAILS = [
    NOTAIL,
    postail(pos("p1", "one")),
    postail(pos("p1", "opt")),
    postail(pos("p1", "many")),
    postail(pos("p1", "some", vt="int")),
    postail(pos("p1", "one", vt="int"), pos("p2", "opt")),
    postail(pos("p1", "one"), pos("p2", "many")),
    postail(pos("p1", "one"), pos("p2", "one"), pos("p3", "some")),
    postail(pos("p1", "opt", "non_strict"), pos("p2", "many", "strict")),
    postail(pos("p1", "one", "strict")),
    postail(pos("p1", "many", "non_strict"), pos("p2", "opt", "strict")),
]


def conv_family(seed, n_defs, max_named=3, maxlen=3, budget=6000, extras=("dd", "unk")):
    """The conventional fragment of C01: named items of every kind/arity/naming, every tail shape.
    Pairwise-style coverage: a seeded sample in which every pool entry and every tail occurs."""
    rnd = random.Random(seed)
    defs = []
    pool_cycle = list(range(len(NAMED_POOL)))
    tails_cycle = list(range(len(POS_TAILS) + 3))
    k = 0
    while len(defs) < n_defs:
        rnd.shuffle(pool_cycle)
        for start in range(0, len(pool_cycle), max_named):
            if len(defs) >= n_defs:
                break
            nn = rnd.randint(1, max_named)
            picks = pool_cycle[start:start + nn]
            named = [NAMED_POOL[p](i) for i, p in enumerate(picks)]
            t = tails_cycle[k % len(tails_cycle)]
            k += 1
            if t < len(POS_TAILS):
                lvl = level(named, copy.deepcopy(POS_TAILS[t]), version=rnd.random() < 0.3, ftu=rnd.random() < 0.25)
            else:
                lvl = level(named, cmd_tail_variant(t - len(POS_TAILS), rnd), version=rnd.random() < 0.5, ftu=rnd.random() < 0.3)
            spells = rnd.choice([("sep", "eq"), ("sep", "glued"), ("sep", "eq", "glued"), ("eq",)])
            d = mkdef(f"conv{seed}_{len(defs)}", lvl, maxlen=maxlen, spells=spells, extras=extras,
                      clusters=rnd.random() < 0.5, words=rnd.choice([("1", "x"), ("1", "2"), ("1",)]))
            # keep the exhaustive state count within the budget by trimming the alphabet
            trim_to_budget(d, budget)
            defs.append(d)
    return defs


def cmd_tail_variant(v, rnd):
    inner_a = level([sw("ca", "-x")], postail(pos("cp", "opt")))
    inner_b = level([ar("cb", "one", "int", "-y")], NOTAIL, ftu=rnd.random() < 0.5)
    deep = level([sw("dd1", "-z")], NOTAIL)
    inner_c = level([ar("cc", "opt", "str", "--cc")], cmdtail([cmd("deep", deep)]), version=True, vtag="c")
    if v == 0:
        return cmdtail([cmd("one", inner_a)])
    if v == 1:
        return cmdtail([cmd(["one", "uno"], inner_a, shorts=["o"]), cmd("two", inner_b)])
    return cmdtail([cmd("one", inner_a), cmd("two", inner_c)], optional=True)


def trim_to_budget(d, budget):
    a = d["alpha"]
    steps = [lambda: (a.__setitem__("words", a["words"][:1]), a.__setitem__("eqvals", a["eqvals"][:1])) if len(a["words"]) > 1 else None,
             lambda: a.__setitem__("spells", a["spells"][:1]) if len(a["spells"]) > 1 else None,
             lambda: a.__setitem__("clusters", False),
             lambda: a.__setitem__("maxlen", a["maxlen"] - 1) if a["maxlen"] > 2 else None]
    i = 0
    while est_states(d) > budget and i < len(steps):
        steps[i]()
        i += 1
    return d


# ---------------------------------------------------------------- command trees (C08)
def _uniq_named(rnd, prefix, letters, k, kinds=None):
    """k named items with names unique across the whole tree (letters is a shared iterator)"""
    out = []
    for j in range(k):
        L = next(letters)
        kind = rnd.choice(kinds or ["sw", "sw2", "arg_one", "arg_opt", "arg_many", "rf_count", "arg_fb"])
        id = f"{prefix}{j}"
        if kind == "sw":
            out.append(sw(id, f"-{L}"))
        elif kind == "sw2":
            out.append(sw(id, f"-{L}", f"--{L}{L}long"))
        elif kind == "arg_one":
            out.append(ar(id, "one", rnd.choice(["str", "int"]), f"-{L}"))
        elif kind == "arg_opt":
            out.append(ar(id, "opt", rnd.choice(["str", "int"]), f"--{L}opt", f"-{L}"))
        elif kind == "arg_many":
            out.append(ar(id, "many", "str", f"--{L}many"))
        elif kind == "rf_count":
            out.append(rf(id, "count", f"-{L}"))
        else:
            out.append(ar(id, "fallback", "int", f"--{L}fb"))
    return out


def cmd_tree(rnd, depth, letters, prefix="L", max_named=2, max_cmds=2, cmd_names=None):
    cmd_names = cmd_names if cmd_names is not None else iter(
        ["one", "two", "three", "four", "five", "six", "seven", "eight", "nine", "ten", "eleven", "twelve"]
        + [f"cmd{i}" for i in range(40)])
    named = _uniq_named(rnd, prefix + "n", letters, rnd.randint(0, max_named))
    if depth == 0:
        tails = [NOTAIL, postail(pos(prefix + "p", "opt")), postail(pos(prefix + "p", "many")),
                 postail(pos(prefix + "p", "one"), pos(prefix + "q", "opt", vt="int")),
                 postail(pos(prefix + "p", "opt", "non_strict"), pos(prefix + "q", "many", "strict")),
                 postail(pos(prefix + "p", "many", "strict"))]
        return level(named, rnd.choice(tails), version=rnd.random() < 0.3, vtag=prefix, ftu=rnd.random() < 0.25)
    cmds = []
    for c in range(rnd.randint(1, max_cmds)):
        nm = next(cmd_names)
        names = [nm] + ([nm[:2] + "alias"] if rnd.random() < 0.4 else [])
        shorts = [nm[0] + "x"] if False else ([nm[0]] if rnd.random() < 0.3 else [])
        sub = cmd_tree(rnd, depth - 1 if rnd.random() < 0.8 else 0, letters, prefix + str(c), max_named, max_cmds, cmd_names)
        cmds.append(cmd(names, sub, shorts=shorts))
    # short aliases must not collide between siblings
    seen = set()
    for c in cmds:
        c["shorts"] = [x for x in c["shorts"] if x not in seen and not seen.add(x)]
    return level(named, cmdtail(cmds, optional=rnd.random() < 0.3), version=rnd.random() < 0.3, vtag=prefix,
                 ftu=rnd.random() < 0.25)


def cmd_family(seed, n, depth=2, maxlen=4, budget=8000, extras=("help", "unk", "dd")):
    rnd = random.Random(seed)
    out = []
    while len(out) < n:
        letters = iter("abcdefgijklmnopqrstuvwyz")
        lvl = cmd_tree(rnd, rnd.randint(1, depth), letters)
        d = mkdef(f"cmd{seed}_{len(out)}", lvl, maxlen=maxlen, extras=extras,
                  spells=rnd.choice([("sep",), ("eq",), ("sep", "eq")]), words=("1", "x"))
        trim_to_budget(d, budget)
        if est_states(d) <= budget * 3:
            out.append(d)
    return out


def lithead(id, word):
    return {"id": id, "kind": "lit", "lit": word, "arity": "one", "vt": "none", "shorts": [], "longs": [], "letters": [], "lchars": [],
            "env": "", "adj": False, "guard": False, "catch": False, "hidden": False, "help": "", "completer": [], "metavar": ""}


def littag_family(seed, n, maxlen=4, budget=5000):
    """adjacent groups whose tag is a fixed word looked for anywhere (`+ext NAME`, find's `-user NAME` idiom) next to free
    positional items - engine GroupLine"""
    out = []
    for i in range(n):
        wrap = ["opt", "many", "one"][i % 3]
        # (text members: which of several failing starts is reported, and when, is not what this family is about)
        g = adjf("g0", wrap, lithead("h0", "+ext"), posm("x", "str")) if i % 2 else \
            adjf("g0", wrap, lithead("h0", "+ext"), posm("x", "str"), posm("y", "str"))
        named = [g] if i % 2 else [sw("o1", "-v"), g]
        tail = [postail(pos("p0", "many")), postail(pos("p0", "opt")), NOTAIL][(i // 3) % 3]
        d = mkdef(f"littag{seed}_{i}", level(named, tail), maxlen=maxlen, extras=("unk",) if i % 4 == 0 else (), spells=("sep",), words=("+ext", "1", "x"))
        galpha_trim(d, budget)
        d["alpha"]["words"] = list(dict.fromkeys(["+ext"] + d["alpha"]["words"]))
        out.append(d)
    return out


def wide_family(seed, n, maxlen=5, budget=6000):
    """adjacent groups that declare an optional argument in front of their tag (`[--scale N] --rect --w W`): a block
    may start with any named member of the group - engine GroupLine"""
    out = []
    for i in range(n):
        wrap = ["many", "opt", "one"][i % 3]
        members = [ar("sc", "opt", "int", "--scale"), ar("w", "one", "int", "--ww")] + ([sw("q", "-q")] if i % 2 else [])
        g = adjf("g0", wrap, rf("h0", "one", "--rect"), *members)
        g["head_at"] = 1
        named = [g] if i % 4 < 2 else [sw("o1", "-v"), g]
        d = mkdef(f"wide{seed}_{i}", level(named, NOTAIL if i % 3 else postail(pos("p0", "opt"))), maxlen=maxlen, extras=(),
                  spells=("sep",), words=("1",))
        galpha_trim(d, budget)
        out.append(d)
    # a value that does not convert, further right than an option declared AFTER the group and typed inside the block
    for i in range(max(1, n // 3)):
        wrap = ["many", "opt", "one"][i % 3]
        g = adjf("g0", wrap, rf("h0", "one", "--rect"), ar("w", "one", "int", "--ww"), ar("sc", "opt", "int", "--scale"))
        d = mkdef(f"widex{seed}_{i}", level([g, sw("o3", "-s")], postail(pos("p0", "opt")) if i % 2 else NOTAIL), maxlen=maxlen, extras=(),
                  spells=("sep",), words=("1", "x"))
        galpha_trim(d, budget)
        if "x" not in d["alpha"]["words"]:
            d["alpha"]["words"] = list(d["alpha"]["words"]) + ["x"]
        out.append(d)
    return out


def posfirst_family(seed, n, maxlen=4, budget=5000):
    """a positional item declared in front of a name-led adjacent group (`NAME [--at X Y]`) - engine GroupLine"""
    out = []
    for i in range(n):
        wrap = ["opt", "many", "one"][i % 3]
        g = adjf("g0", wrap, rf("h0", "one", "--at"), posm("x", "int"), posm("y", "int")) if i % 2 == 0 else \
            adjf("g0", wrap, rf("h0", "one", "--at"), ar("w", "one", "int", "--ww"), posm("y", "int"))
        items = [pos("p0", "one")] + ([pos("p1", "opt")] if i % 4 == 3 else [])
        lvl = level([g], postail(*items))
        lvl["pos_first"] = True
        d = mkdef(f"posfirst{seed}_{i}", lvl, maxlen=maxlen, extras=("help",), spells=("sep",), words=("1", "x"))
        galpha_trim(d, budget)
        out.append(d)
    return out


def prepos_family(seed, n, maxlen=4, budget=6000, extras=("help", "unk")):
    """levels that declare a positional item in front of their subcommands (`app one NAME two -b`): the word goes to
    the positional, the next one must name a command; commands with items of their own, nested twice"""
    rnd = random.Random(seed)
    out = []
    for i in range(n):
        two = level([sw("tb", "-b"), rf("tc", "count", "-c")] if i % 2 else [sw("tb", "-b")],
                    [NOTAIL, postail(pos("tp", "opt"))][(i // 2) % 2], version=(i % 5 == 1))
        t1 = cmdtail([cmd(["two", "t2"], two)] + ([cmd("three", level([], NOTAIL))] if i % 3 == 0 else []), optional=(i % 4 == 3))
        t1["pre_pos"] = [pos("np", "one", vt="str" if i % 3 else "int")]
        one = level([sw("om", "-m")] if i % 2 == 0 else [ar("om", "opt", "str", "-m")], t1, version=(i % 4 == 0), ftu=(i % 6 == 5))
        if i % 3 == 1:
            # the positional at the root itself
            root = one
        else:
            root = level([sw("rv", "-v")] if i % 2 else [], cmdtail([cmd(["one"], one)], optional=(i % 7 == 6)))
        d = mkdef(f"prepos{seed}_{i}", root, maxlen=maxlen, extras=extras, spells=("sep",), words=("two", "1"))
        trim_to_budget(d, budget)
        out.append(d)
    return out


# ---------------------------------------------------------------- positionals and `--` (C09)
def pos_family(seed, n, maxlen=4, budget=8000):
    rnd = random.Random(seed)
    out = []
    ar_pool = ["one", "opt", "many", "some"]
    st_pool = ["any", "strict", "non_strict"]
    while len(out) < n:
        k = rnd.randint(0, 3)
        items = []
        for j in range(k):
            arity = rnd.choice(ar_pool) if j == k - 1 or rnd.random() < 0.3 else "one"
            items.append(pos(f"p{j}", arity, rnd.choice(st_pool), rnd.choice(["str", "str", "int"])))
        named = []
        for j in range(rnd.randint(0, 2)):
            L = "abc"[j]
            named.append(rnd.choice([sw(f"n{j}", f"-{L}"), ar(f"n{j}", rnd.choice(["opt", "many", "one"]), "str", f"-{L}", f"--{L}arg"),
                                     rf(f"n{j}", "count", f"-{L}")]))
        tail = postail(*items) if items else rnd.choice([NOTAIL, cmdtail([cmd("one", level([sw("cs", "-x")], postail(pos("cp", "many"))))],
                                                                     optional=True)])
        d = mkdef(f"pos{seed}_{len(out)}", level(named, tail), maxlen=maxlen, extras=("dd", "help", "unk"),
                  spells=("sep", "eq"), words=rnd.choice([("1", "x"), ("1",)]), eqvals=("1", "--"))
        trim_to_budget(d, budget)
        out.append(d)
    return out


def pos_fb_family(seed, n, maxlen=4, budget=8000):
    """defaulted positionals (`fallback`, `fallback_with`) of every strictness in front of other positionals"""
    rnd = random.Random(seed)
    out = []
    while len(out) < n:
        i = len(out)
        first = pos("p0", ["fallback_with", "fallback"][i % 2], ["non_strict", "any", "strict"][(i // 2) % 3], ["str", "int"][(i // 6) % 2])
        rest = [[], [pos("p1", "many", "strict")], [pos("p1", "many")], [pos("p1", "opt", "strict")], [pos("p1", "one")]][(i // 3) % 5]
        named = [sw("n0", "-a")] if i % 4 == 0 else []
        d = mkdef(f"posfb{seed}_{i}", level(named, postail(first, *rest)), maxlen=maxlen, extras=("dd", "unk"),
                  spells=("sep",), words=("1", "x"), eqvals=("1",))
        trim_to_budget(d, budget)
        out.append(d)
    return out


# ---------------------------------------------------------------- values, conversions, guards (C06)
def val_family(seed, n, maxlen=3, budget=8000):
    rnd = random.Random(seed)
    out = []
    arities = ["one", "opt", "many", "some", "fallback", "fallback_with", "last"]
    while len(out) < n:
        named = []
        for j in range(rnd.randint(1, 2)):
            L = "abc"[j]
            a = arities[(len(out) + j) % len(arities)]
            vt = rnd.choice(["int", "int", "str"])
            named.append(ar(f"v{j}", a, vt, f"-{L}", f"--{L}val", guard=(vt == "str" or rnd.random() < 0.5)))
        shape = len(out) % 4
        if shape == 0:
            lvl = level(named, NOTAIL)
        elif shape == 1:
            lvl = level(named, postail(pos("p0", rnd.choice(["opt", "many", "one"]), vt="int")))
        elif shape == 2:
            lvl = level([sw("t", "-t")], cmdtail([cmd("one", level(named, NOTAIL))]))
        else:
            lvl = level(named[:1], cmdtail([cmd("one", level([ar("w", "opt", "int", "-w")], postail(pos("cp", "opt", vt="int"))))],
                                        optional=True))
        d = mkdef(f"val{seed}_{len(out)}", lvl, maxlen=maxlen, extras=("unk",), spells=("sep", "eq"),
                  words=("1", "2", "x"))
        trim_to_budget(d, budget)
        out.append(d)
    return out


def flagguard_family(seed, n, maxlen=2, budget=1500):
    """a switch (possibly environment-backed) carrying a validation that refuses it, next to an argument or a
    positional consumed before or after it (C06/C18: present means present; C20: the message names the same item)"""
    rnd = random.Random(seed)
    out = []
    while len(out) < n:
        i = len(out)
        g = sw("g0", "--turbo", env=("BPAF_VERIF_V0" if i % 2 == 0 else ""))
        g["gflag"] = True
        other = [ar("o1", "one", "str", "-n"), ar("o1", "opt", "int", "-n"), sw("o1", "-n")][i % 3]
        named = [other, g] if (i // 2) % 2 == 0 else [g, other]
        tail = [NOTAIL, postail(pos("p0", "one")), postail(pos("p0", "opt"))][(i // 3) % 3]
        d = mkdef(f"fg{seed}_{i}", level(named, tail), maxlen=maxlen, extras=("unk",), spells=("sep",),
                  words=("1", "x"), envvals=("UNSET", "1"))
        trim_to_budget(d, budget)
        out.append(d)
    return out


def nonascii_flag_family(seed, n, maxlen=3, budget=3000):
    """flags and arguments whose short names are not ASCII, next to words that look like a bundle of such a name and an
    undeclared letter (`-\u00e9x`: a plain word for bpaf) - every item is still used exactly once or the run fails"""
    rnd = random.Random(seed)
    out = []
    shorts = ["-%C3%A9", "-%E0%B8%81", "-%C3%B1", "-%F0%9F%98%80"]
    while len(out) < n:
        i = len(out)
        f1 = sw("f1", shorts[i % 4])
        f2 = [sw("f2", "-v"), rf("f2", "count", shorts[(i + 1) % 4]), ar("f2", "opt", "str", "-o", "--out")][i % 3]
        tail = [NOTAIL, postail(pos("p0", "many")), postail(pos("p0", "opt")), postail(pos("p0", "one"), pos("p1", "opt"))][(i // 2) % 4]
        d = mkdef(f"naf{seed}_{i}", level([f1, f2], tail), maxlen=maxlen, extras=rnd.choice([("unk",), ("dd",), ()]),
                  spells=("sep",), words=("first", shorts[i % 4] + "x", "-x" + shorts[i % 4][1:]), clusters=(i % 2 == 0))
        trim_to_budget(d, budget)
        if len(d["alpha"]["words"]) < 2:
            d["alpha"]["words"] = ["first", shorts[i % 4] + "x"]
        out.append(d)
    return out


def dupcmd_family(seed, n, maxlen=2, budget=2500):
    """two subcommands of one level carry the same name (the first one listed is the one that runs) but different
    descriptions: both are listed by help"""
    out = []
    for i in range(n):
        a = level([sw("ca", "-x")], NOTAIL)
        b = level([sw("cb", "-y")], postail(pos("cp", "opt")))
        c1, c2 = cmd("run", a), cmd("run", b)
        c1["help"], c2["help"] = f"HELP-cmd-run-first{i}", f"HELP-cmd-run-second{i}"
        if i % 2 == 0:
            c2["help"] = c1["help"]         # ... or the same one-line summary: listed once (in every build)
        cmds = [c1, c2] + ([cmd("other", level([], NOTAIL))] if i % 2 else [])
        d = mkdef(f"dupcmd{seed}_{i}", level([sw("t0", "-v")] if i % 3 else [], cmdtail(cmds, optional=bool(i % 2))), maxlen=maxlen,
                  extras=("help",), spells=("sep",), words=("1",))
        trim_to_budget(d, budget)
        out.append(d)
    return out


def count_family(seed, n, maxlen=3, budget=3000):
    """`count()` over valued arguments (not only over flags): the value is the number of occurrences, every value is
    still converted and validated"""
    rnd = random.Random(seed)
    out = []
    for i in range(n):
        vt = ["int", "str"][i % 2]
        c = ar("c0", "count", vt, "-D", "--def", guard=(vt == "str" or i % 4 == 0))
        other = [sw("o1", "-v"), ar("o1", "opt", "int", "-o"), rf("o1", "count", "-v")][i % 3]
        named = [c, other] if i % 2 else [other, c]
        shape = (i // 2) % 3
        if shape == 0:
            lvl = level(named, NOTAIL)
        elif shape == 1:
            lvl = level(named, postail(pos("p0", "opt")))
        else:
            lvl = level([sw("t", "-t")], cmdtail([cmd("one", level(named, NOTAIL))], optional=True))
        d = mkdef(f"cnt{seed}_{i}", lvl, maxlen=maxlen, extras=("unk",), spells=("sep", "eq"), words=("1", "2", "x"))
        trim_to_budget(d, budget)
        out.append(d)
    return out


def catch_family(seed, n, maxlen=2, budget=1500):
    """optional/many/some arguments with `catch` (C06: the one documented exception): typed and environment values"""
    rnd = random.Random(seed)
    out = []
    while len(out) < n:
        i = len(out)
        a = ["opt", "many", "some"][i % 3]
        vt = ["int", "str"][(i // 3) % 2]
        it = ar("k0", a, vt, "-k", "--kval", guard=(vt == "str" or i % 2 == 0), env=("BPAF_VERIF_V0" if i % 2 else ""))
        it["catch"] = True
        others = [sw("o1", "-o")] if i % 4 < 2 else [ar("o1", "opt", "int", "-o")]
        shape = (i // 2) % 3
        if shape == 0:
            lvl = level([it] + others, NOTAIL)
        elif shape == 1:
            lvl = level(others + [it], postail(pos("p0", "opt")))
        else:
            lvl = level([it], cmdtail([cmd("one", level(others, NOTAIL))], optional=True))
        d = mkdef(f"catch{seed}_{i}", lvl, maxlen=maxlen, extras=("unk",), spells=("sep", "eq"),
                  words=("1", "2", "x"), envvals=("UNSET", "1", "x", "2"))
        trim_to_budget(d, budget)
        out.append(d)
    return out


# ---------------------------------------------------------------- environment fallback (C18)
def env_family(seed, n, maxlen=3, budget=6000):
    rnd = random.Random(seed)
    shapes = [("switch", "sw"), ("reqflag", "one"), ("reqflag", "opt"), ("reqflag", "count"),
              ("arg", "one"), ("arg", "opt"), ("arg", "many"), ("arg", "some"), ("arg", "fallback"),
              ("arg", "last"), ("arg", "fallback_with")]
    out = []
    while len(out) < n:
        kind, arity = shapes[len(out) % len(shapes)]
        vt = rnd.choice(["int", "str", "os"]) if kind == "arg" else "none"
        var = f"BPAF_VERIF_V{len(out) % 3}"
        it = leaf("e0", kind, arity, shorts=["-e"], longs=["--env0"], vt=vt, env=var,
                  guard=(kind == "arg" and rnd.random() < 0.3))
        if len(out) % 4 == 3:
            it["env2"] = "BPAF_VERIF_X"         # a second variable, consulted when the first one is not set
        if len(out) % 7 == 5:
            it["shorts"], it["longs"], it["letters"], it["lchars"] = [], [], [], []       # an item that has a variable and no name at all
        others = [rnd.choice([sw("o1", "-o"), ar("o1", "opt", "int", "-o", env="BPAF_VERIF_W"), rf("o1", "count", "-o")])]
        named = [it] + others if rnd.random() < 0.6 else others + [it]
        shape = len(out) % 3
        # fallback_to_usage speaks only when the empty line FAILS: a variable that satisfies the parser keeps it quiet
        ftu = len(out) % 5 in (1, 3)
        if shape == 0:
            lvl = level(named, NOTAIL, ftu=ftu)
        elif shape == 1:
            lvl = level(named, postail(pos("p0", "opt")), ftu=ftu)
        else:
            lvl = level([sw("t", "-t")], cmdtail([cmd("one", level(named, NOTAIL, ftu=ftu))], optional=True))
        d = mkdef(f"env{seed}_{len(out)}", lvl, maxlen=maxlen, extras=("unk", "help") if len(out) % 2 else ("unk",), spells=("sep", "eq"),
                  words=("1", "x"), envvals=("UNSET", "1", "x", "2", "%FF"))
        trim_to_budget(d, budget)
        out.append(d)
    return out


# ---------------------------------------------------------------- choices (C07) and adjacent groups (C19)
def branch(*leaves):
    return {"kind": "branch", "fields": list(leaves)}


def altf(id, wrap, *branches):
    return {"kind": "alt", "id": id, "arity": wrap, "branches": list(branches), "help": "", "hidden": False,
            "guard": False, "catch": False}


def posm(id, vt="str"):
    return {"kind": "pos", "id": id, "vt": vt, "arity": "one", "strict": "any", "help": f"HELP-{id}",
            "metavar": f"MV{id.upper()}", "hidden": False}


def adjf(id, wrap, head, *members):
    return {"kind": "adj", "id": id, "arity": wrap, "head": head, "members": list(members), "help": "",
            "hidden": False, "guard": False, "catch": False}


BRANCH_POOL = [
    lambda i: branch(rf(f"b{i}", "one", f"--flag{i}")),
    lambda i: branch(rf(f"b{i}", "one", f"-{'pqrs'[i]}")),
    lambda i: branch(ar(f"b{i}", "one", "int", f"--num{i}")),
    lambda i: branch(ar(f"b{i}", "one", "str", f"-{'pqrs'[i]}", f"--str{i}")),
    lambda i: branch(ar(f"b{i}", "one", "str", f"--key{i}"), ar(f"c{i}", "opt", "int", f"--opt{i}")),
    lambda i: branch(rf(f"b{i}", "one", f"--on{i}"), sw(f"c{i}", f"--extra{i}")),
    lambda i: branch(ar(f"b{i}", "one", "int", f"--lo{i}"), ar(f"c{i}", "one", "int", f"--hi{i}")),
    lambda i: branch(rf(f"b{i}", "one", f"--tag{i}"), ar(f"c{i}", "some", "str", f"-{'wxyz'[i]}")),
    lambda i: branch(rf(f"b{i}", "one", f"--set{i}"), ar(f"c{i}", "many", "int", f"--val{i}")),
]


def alt_family(seed, n, maxlen=4, budget=8000):
    rnd = random.Random(seed)
    out = []
    wraps = ["one", "opt", "many", "some"]
    while len(out) < n:
        nb = rnd.choice([1, 2, 2, 3, 3, 4])
        picks = [rnd.randrange(len(BRANCH_POOL)) for _ in range(nb)]
        branches = [BRANCH_POOL[p](i) for i, p in enumerate(picks)]
        g = altf("g0", wraps[len(out) % 4], *branches)
        others = []
        r = rnd.random()
        if r < 0.35:
            others = [sw("o1", "-v")]
        elif r < 0.55:
            others = [ar("o1", "many", "str", "-m")]
        fields = others + [g] if rnd.random() < 0.5 else [g] + others
        tail = rnd.choice([NOTAIL, NOTAIL, postail(pos("p0", "many")), postail(pos("p0", "opt"))])
        d = mkdef(f"alt{seed}_{len(out)}", level(fields, tail), maxlen=maxlen, extras=rnd.choice([("unk",), ("dd",), ()]),
                  spells=rnd.choice([("sep",), ("eq",)]), words=rnd.choice([("1",), ("1", "x")]))
        galpha_trim(d, budget)
        out.append(d)
    return out


def alt_env_family(seed, n, maxlen=2, budget=3000):
    """choices whose branches hold environment-backed items (C18): the command line beats the environment across
    alternatives, the environment alone selects the first branch it satisfies"""
    rnd = random.Random(seed)
    out = []
    wraps = ["one", "opt", "many", "some"]
    pool = [
        lambda i, v: branch(ar(f"b{i}", "one", rnd.choice(["int", "str"]), f"--name{i}", env=v)),
        lambda i, v: branch(rf(f"b{i}", "one", f"--flag{i}", env=v)),
        lambda i, v: branch(rf(f"b{i}", "one", f"--on{i}"), ar(f"c{i}", "one", "int", f"--lvl{i}", env=v)),
        lambda i, v: branch(ar(f"b{i}", "one", "str", f"--key{i}", env=v), ar(f"c{i}", "opt", "str", f"--opt{i}")),
        lambda i, v: branch(rf(f"b{i}", "one", f"--plain{i}")),
        lambda i, v: branch(ar(f"b{i}", "one", "int", f"--num{i}", env=v, guard=True)),
    ]
    while len(out) < n:
        nb = rnd.choice([2, 2, 3])
        picks = [rnd.randrange(len(pool)) for _ in range(nb)]
        branches = [pool[p](i, f"BPAF_VERIF_V{i % 2}") for i, p in enumerate(picks)]
        if not any(l.get("env") for b in branches for l in b["fields"]):
            continue
        g = altf("g0", wraps[len(out) % 4], *branches)
        others = [sw("o1", "-v")] if rnd.random() < 0.4 else []
        d = mkdef(f"altenv{seed}_{len(out)}", level(others + [g], NOTAIL), maxlen=maxlen, extras=rnd.choice([("unk",), ()]),
                  spells=("eq",), words=("1", "x"), envvals=("UNSET", "1", "x", "2"))
        galpha_trim(d, budget)
        out.append(d)
    return out


def alt_tie_family(seed, n, maxlen=3, budget=3000):
    """choices whose branches can all succeed on nothing (defaults): ties go to the branch listed first; built through
    `construct!([..])` or through the `choice` function"""
    rnd = random.Random(seed)
    out = []
    wraps = ["one", "opt", "many", "some"]
    while len(out) < n:
        i = len(out)
        nb = 2 + i % 2
        kinds = [(i + j) % 3 for j in range(nb)]
        branches = []
        for j, k in enumerate(kinds):
            if k == 0:
                branches.append(branch(ar(f"b{j}", "fallback", "int", f"--jobs{j}")))
            elif k == 1:
                branches.append(branch(ar(f"b{j}", "fallback_with", "str", f"--name{j}")))
            else:
                branches.append(branch(sw(f"b{j}", f"--sw{j}"), ar(f"c{j}", "opt", "int", f"--lvl{j}")))
        g = altf("g0", wraps[i % 4], *branches)
        g["via_choice"] = (i // 2) % 2 == 0
        others = [sw("o1", "-v")] if i % 5 < 2 else []
        d = mkdef(f"alttie{seed}_{i}", level(others + [g], NOTAIL), maxlen=maxlen, extras=rnd.choice([("unk",), ()]),
                  spells=("eq",), words=("1",))
        galpha_trim(d, budget)
        out.append(d)
    return out


def group_fb_family(seed, n, maxlen=3, budget=3000, with_gdflt=False):
    """a group of items with a default for the whole group (`construct!(a, b).fallback_with(..)`): the default stands in
    only when none of its items was typed - a partly typed group is an error, never silently replaced"""
    rnd = random.Random(seed)
    out = []
    while len(out) < n:
        i = len(out)
        shape = i % 3
        if shape == 0:
            br = branch(ar("w", "one", "int", "--width"), ar("h", "one", "int", "--height"))
        elif shape == 1:
            br = branch(rf("on", "one", "--on"), ar("lv", "one", "int", "--lvl"), sw("x", "--extra"))
        else:
            br = branch(ar("k", "one", "str", "--key"), ar("vs", "some", "int", "--val"))
        g = altf("g0", ["fallback_with", "fallback"][(i // 3) % 2], br)
        g["gdflt"] = with_gdflt and i % 2 == 1
        others = [sw("o1", "-v")] if i % 2 == 0 else ([ar("o1", "one", "int", "-a")] if with_gdflt else [])
        tail = [NOTAIL, postail(pos("p0", "many")), postail(pos("p0", "opt"))][(i // 2) % 3]
        fields = others + [g] if i % 4 < 2 else [g] + others
        d = mkdef(f"grpfb{seed}_{i}", level(fields, tail), maxlen=maxlen, extras=rnd.choice([("unk",), ("dd",), ()]),
                  spells=("eq",), words=("1", "x"))
        galpha_trim(d, budget)
        out.append(d)
    return out


def posb(id, vt="int"):
    """a positional item as a branch of a choice"""
    return {"kind": "pos", "id": id, "vt": vt, "arity": "one", "strict": "any", "help": f"HELP-{id}", "metavar": f"MV{id.upper()}",
            "hidden": False, "shorts": [], "longs": [], "env": "", "guard": False, "catch": False, "lchars": [], "completer": [],
            "letters": [], "adj": False}


def alt_short_family(seed, n, maxlen=3, budget=4000):
    """choices between flags with short names, written one by one or several in one item (`-ab`), the choice nested to
    the left (the usual expansion) or to the right"""
    rnd = random.Random(seed)
    out = []
    wraps = ["many", "some", "one", "opt", "count"]
    for i in range(n):
        nb = 2 + i % 2
        branches = [branch(rf(f"b{j}", "one", f"-{'abc'[j]}", *([f"--long{j}"] if (i + j) % 3 == 0 else []))) for j in range(nb)]
        g = altf("g0", wraps[i % 5], *branches)
        g["via_right_nested"] = i % 2 == 1
        others = [sw("o1", "-v")] if i % 3 == 0 else []
        fields = others + [g] if i % 4 < 2 else [g] + others
        d = mkdef(f"altsh{seed}_{i}", level(fields, NOTAIL), maxlen=maxlen, extras=rnd.choice([("unk",), ()]), spells=("sep",), words=("1",),
                  clusters=True)
        galpha_trim(d, budget)
        out.append(d)
    return out


def lit_family(seed, n, maxlen=3, budget=4000):
    """choices between fixed words (`literal`), one of them a proper prefix of another, next to a flag branch"""
    rnd = random.Random(seed)
    out = []
    wraps = ["many", "one", "opt", "some"]
    sets = [["build", "build-all", "clean"], ["build-all", "build"], ["go", "gone", "g"]]
    for i in range(n):
        words = sets[i % 3]
        branches = []
        for j, w in enumerate(words):
            b = posb(f"l{j}", "str")
            b["lit"] = w
            branches.append(branch(b))
        if i % 2:
            branches.insert(rnd.randrange(len(branches) + 1), branch(rf("bf", "one", "--flag")))
        g = altf("g0", wraps[i % 4], *branches)
        tail = postail(pos("p0", "many")) if i % 4 == 2 else NOTAIL
        d = mkdef(f"lit{seed}_{i}", level([g], tail), maxlen=maxlen, extras=rnd.choice([("unk",), ("dd",), ()]), spells=("sep",),
                  words=tuple(words) + ("cleanup" if "clean" in words else "goner",))
        galpha_trim(d, budget)
        d["alpha"]["words"] = list(words) + ["cleanup" if "clean" in words else "goner"]
        out.append(d)
    return out


def alt_pos_family(seed, n, maxlen=3, budget=4000):
    """choices between named branches and a positional item (`[--all | ID] [NAME]...`): the word goes to the
    choice only when it wins, otherwise on to the positionals that follow"""
    rnd = random.Random(seed)
    out = []
    wraps = ["one", "opt", "many", "some"]
    named_pool = [lambda i: branch(rf(f"b{i}", "one", f"--all{i}")),
                  lambda i: branch(ar(f"b{i}", "one", "int", f"--num{i}")),
                  lambda i: branch(rf(f"b{i}", "one", f"--on{i}"), ar(f"c{i}", "opt", "str", f"--with{i}")),
                  lambda i: branch(ar(f"b{i}", "fallback", "int", f"--fb{i}"))]
    while len(out) < n:
        i = len(out)
        nb = rnd.choice([1, 1, 2])
        branches = [named_pool[rnd.randrange(len(named_pool))](j) for j in range(nb)]
        pb = branch(posb("pb", ["int", "str"][i % 2]))
        branches = branches + [pb] if i % 3 else [pb] + branches
        g = altf("g0", wraps[i % 4], *branches)
        others = [sw("o1", "-v")] if rnd.random() < 0.5 else []
        tail = [NOTAIL, postail(pos("p0", "many")), postail(pos("p0", "opt")), postail(pos("p0", "one", vt="int"))][(i // 2) % 4]
        d = mkdef(f"altpos{seed}_{i}", level(others + [g], tail), maxlen=maxlen, extras=rnd.choice([("dd",), ("unk",), ()]),
                  spells=("eq",), words=("1", "x"))
        galpha_trim(d, budget)
        if len(d["alpha"]["words"]) == 1:
            d["alpha"]["words"] = ["1", "x"]
        out.append(d)
    return out


def acmd_hole_defs(seed):
    """an adjacent subcommand between an option declared before it and one declared after it: the
    earlier option consumes its item first and leaves a hole in the command's window"""
    out = []
    for i, wrap in enumerate(["many", "many"]):
        g = adjf("g0", wrap, cmdhead("h0", "cmd"), sw("a", "-a") if i == 0 else ar("a", "opt", "int", "-a"))
        d = mkdef(f"acmdhole{seed}_{i}", level([sw("o1", "-v"), g, sw("o3", "-q")], NOTAIL), maxlen=5,
                  extras=("unk",), spells=("sep",), words=("cmd",))
        out.append(d)
    return out


def adj_family(seed, n, maxlen=5, budget=8000):
    rnd = random.Random(seed)
    out = []
    wraps = ["one", "opt", "many", "count", "some"]
    while len(out) < n:
        shape = len(out) % 3
        wrap = wraps[(len(out) // 3) % 5]
        if shape == 0:
            g = adjf("g0", wrap, rf("h0", "one", "--point"), posm("x", rnd.choice(["int", "str"])), posm("y", "str"))
        elif shape == 1:
            g = adjf("g0", wrap, rf("h0", "one", "--rect"), ar("w", "one", "int", "--ww"), ar("h", "one", "str", "--hh"),
                     sw("q", "--sq"))
        else:
            g = adjf("g0", wrap, rf("h0", "one", "-P"), posm("x", "str"), posm("y", "int"), posm("z", "str"))
        others = []
        r = rnd.random()
        if r < 0.4:
            others = [sw("o1", "-v")]
        elif r < 0.7:
            others = [sw("o1", "-v"), ar("o2", "opt", "str", "-o")]
        fields = others + [g] if rnd.random() < 0.6 else [g] + others
        tail = rnd.choice([NOTAIL, postail(pos("p0", "many"))])
        d = mkdef(f"adj{seed}_{len(out)}", level(fields, tail), maxlen=maxlen, extras=rnd.choice([("unk",), ("dd",), ("help",), ()]),
                  spells=rnd.choice([("sep",), ("eq",)]), words=rnd.choice([("1",), ("1", "x")]))
        galpha_trim(d, budget)
        out.append(d)
    return out


def field_leaves(f):
    if f["kind"] in ("switch", "reqflag", "arg"):
        return [f]
    if f["kind"] == "alt":
        return [l for b in f["branches"] for l in b["fields"] if l["kind"] != "pos"]
    if f["kind"] in ("seq",):
        return list(f["fields"])
    head = [] if f["head"]["kind"] == "cmd" else [f["head"]]
    return head + [m for m in f["members"] if m["kind"] != "pos"]


def cmdhead(id, *names):
    return {"kind": "cmd", "id": id, "names": list(names), "shorts": [], "longs": [], "help": f"HELP-{id}", "hidden": False,
            "nchars": [list(n) for n in names]}


def acmd_family(seed, n, maxlen=5, budget=8000):
    """adjacent subcommands (chains): the command name opens a block made of its own items"""
    rnd = random.Random(seed)
    out = []
    wraps = ["one", "opt", "many"]
    while len(out) < n:
        shape = len(out) % 3
        wrap = wraps[(len(out) // 3) % 3]
        if shape == 0:
            g = adjf("g0", wrap, cmdhead("h0", "mv"), posm("x"), posm("y"))
        elif shape == 1:
            g = adjf("g0", wrap, cmdhead("h0", "cmd", "c2"), sw("a", "-a"), ar("b", "opt", "int", "-b"))
        else:
            g = adjf("g0", wrap, cmdhead("h0", "eat"), ar("w", "one", "str", "--what"), sw("q", "-q"), posm("f"))
        others = [sw("o1", "-v")] if rnd.random() < 0.7 else []
        # named items may follow only a group without positional members (check_invariants)
        after = [sw("o3", "-z")] if (shape == 1 and wrap == "many" and rnd.random() < 0.8) else []
        tail = postail(pos("p0", "many")) if rnd.random() < 0.3 else NOTAIL
        d = mkdef(f"acmd{seed}_{len(out)}", level(others + [g] + after, tail), maxlen=maxlen,
                  extras=rnd.choice([("unk",), ("dd",), ("help",), ()]), spells=("sep",), words=("1", "mv") if shape == 0 else ("1",))
        d["alpha"]["words"] = list(dict.fromkeys(d["alpha"]["words"] + g["head"]["names"][:1]))
        galpha_trim(d, budget)
        out.append(d)
    return out


def nested_in_acmd_family(seed, n, maxlen=5, budget=6000):
    """a regular subcommand nested in an adjacent one (`remote add NAME` chained with `fetch [-p]`): the nested command's
    part ends where the enclosing adjacent block ends, the items after it belong to the level again"""
    out = []
    for i in range(n):
        sub = posm("sub", "str")
        sub["lit"] = "add"
        remote = adjf("g0", ["many", "opt", "one"][i % 3], cmdhead("h0", "remote"), sub, posm("nm", "str"))
        remote["nested_cmd"] = "add"
        fetch = adjf("g1", ["many", "opt"][i % 2], cmdhead("h1", "fetch"), sw("p", "-p"))
        before = [sw("o1", "-v")] if i % 2 else []
        d = mkdef(f"nestacmd{seed}_{i}", level(before + [remote, fetch], NOTAIL), maxlen=maxlen, extras=(), spells=("sep",),
                  words=("remote", "add", "fetch", "1"))
        galpha_trim(d, budget)
        d["alpha"]["words"] = ["remote", "add", "fetch", "1"]
        out.append(d)
    return out


def acmd_ftu_family(seed, n, maxlen=4, budget=5000):
    """adjacent subcommands with `fallback_to_usage`: the bare name prints the command's usage, the name followed by
    something the command cannot use is an ordinary failure"""
    out = []
    for i in range(n):
        wrap = ["one", "opt", "many"][i % 3]
        g = adjf("g0", wrap, cmdhead("h0", "sleep"), ar("w", "one", "int", "--time"), *([sw("q", "-q")] if i % 2 else []))
        g["head"]["ftu"] = True
        before = [sw("o1", "-v")] if i % 4 < 2 else []
        after = [sw("o3", "-z")] if (wrap == "many" and i % 2) else []
        tail = postail(pos("p0", "opt")) if (i % 5 == 4 and not after) else NOTAIL
        d = mkdef(f"acmdftu{seed}_{i}", level(before + [g] + after, tail), maxlen=maxlen, extras=("unk",) if i % 3 == 0 else (),
                  spells=("sep",), words=("sleep", "1"))
        galpha_trim(d, budget)
        d["alpha"]["words"] = list(dict.fromkeys(["sleep"] + d["alpha"]["words"]))
        out.append(d)
    return out


def tree_group_family(seed, n, maxlen=4, budget=6000, kinds=("alt", "adj", "acmd")):
    """subcommands whose own level has choices / adjacent groups / adjacent subcommands (TreeLine.tla)"""
    rnd = random.Random(seed)
    out = []
    tries = 0
    while len(out) < n:
        i = len(out)
        tries += 1
        subs = []
        for j in range(1 + i % 2):
            fam = {"alt": alt_family, "adj": adj_family, "acmd": acmd_family}[kinds[(i + j) % len(kinds)]]
            # the families cycle through their wrappers (bare/optional/many/some): take a different one each time
            subs.append(fam(seed * 100 + tries * 7 + j, 4, maxlen=maxlen, budget=budget)[(i // len(kinds) + j) % 4])
        # what precedes the command name occupies 0, 1 or 2 items of the line (`--rootarg=1` is two items for bpaf)
        root_named = [[], [sw("r1", "-R", "--rootsw")], [ar("r2", "many", "str", "--rootarg")],
                      [sw("r1", "-R"), ar("r2", "opt", "int", "--rootarg")]][(i + tries) % 4]
        names = [["run"], ["go", "g2"]]
        cmds = [cmd(names[j], sub) for j, sub in enumerate(subs)]
        lvl = level(root_named, cmdtail(cmds, optional=(i % 5 == 4)), version=(i % 4 == 3))
        d = mkdef(f"tg{seed}_{i}", lvl, maxlen=maxlen, extras=rnd.choice([("help",), ("unk",), ("dd",), ("help", "unk")]),
                  spells=("sep", "eq") if i % 2 else ("eq",), words=("1",))
        d["empty"] = level([], NOTAIL)
        flags, args = set(), set()
        for l in [d] + subs:
            for f in l["named"]:
                for it in field_leaves(f):
                    (args if it["kind"] == "arg" else flags).update(it["shorts"])
        if flags & args:
            continue
        out.append(d)
    return out


def adj_alt_family(seed, n, maxlen=5, budget=6000):
    """a repeated choice between adjacent groups (`(--circle R | --rect W H | --origin)...`): one value per block, in order"""
    rnd = random.Random(seed)
    out = []
    for i in range(n):
        pool = [lambda: adjf("g0", "many", rf("h0", "one", "--circle"), posm("r", "int")),
                lambda: adjf("g1", "many", rf("h1", "one", "--rect"), posm("w", "int"), posm("h", "int")),
                lambda: adjf("g2", "many", rf("h2", "one", "--origin")),
                lambda: adjf("g3", "many", rf("h3", "one", "--text"), ar("t", "one", "str", "--msg"))]
        picks = [pool[(i + j) % 4]() for j in range(2 + i % 2)]
        for g in picks:
            g["joined"] = "J"
        others = [sw("o1", "-v")] if i % 3 == 0 else []
        tail = postail(pos("p0", "many")) if i % 4 == 3 else NOTAIL
        d = mkdef(f"adjalt{seed}_{i}", level(others + picks, tail), maxlen=maxlen, extras=rnd.choice([("unk",), ("dd",), ()]),
                  spells=("eq",), words=("1", "2"))
        galpha_trim(d, budget)
        out.append(d)
    return out


def acmd_with_alt_family(seed, n, maxlen=4, budget=6000):
    """mutually exclusive flags next to an adjacent subcommand with a required argument: an item of the losing branch
    typed inside the command's block, help after it"""
    rnd = random.Random(seed)
    out = []
    for i in range(n):
        g = altf("g0", ["opt", "one", "many"][i % 3], branch(rf("b0", "one", "--release")), branch(rf("b1", "one", "--dev")))
        c = adjf("c0", ["many", "opt", "one"][(i // 3) % 3], cmdhead("h0", "build"), ar("j", "one", "int", "--jobs"), sw("q", "-q"))
        d = mkdef(f"acalt{seed}_{i}", level([g, c], NOTAIL), maxlen=maxlen, extras=("help",), spells=("sep",), words=("1", "build"))
        galpha_trim(d, budget)
        d["alpha"]["words"] = list(dict.fromkeys(d["alpha"]["words"] + ["build"]))
        d["alpha"]["extras"] = ["help"]
        out.append(d)
    return out


def acmd_alt_family(seed, n, maxlen=4, budget=6000):
    """a repeated choice between adjacent subcommands (`construct!([build, test, clean]).many()`), some of which take
    no items of their own: one value per command typed, in command-line order"""
    rnd = random.Random(seed)
    out = []
    while len(out) < n:
        i = len(out)
        pool = [lambda: adjf("g0", "many", cmdhead("h0", "build")),
                lambda: adjf("g1", "many", cmdhead("h1", "test"), sw("a", "-a")),
                lambda: adjf("g2", "many", cmdhead("h2", "clean", "cl")),
                lambda: adjf("g3", "many", cmdhead("h3", "run"), ar("b", "opt", "int", "-b"), posm("x"))]
        picks = [pool[(i + j) % 4]() for j in range(2 + i % 2)]
        for g in picks:
            g["joined"] = "J"
            g["arity"] = "some" if i % 3 == 1 else "many"
        others = [sw("o1", "-v")] if i % 3 == 0 else []
        d = mkdef(f"acmdalt{seed}_{i}", level(others + picks, NOTAIL), maxlen=maxlen, extras=rnd.choice([("unk",), ("help",), ()]),
                  spells=("sep",), words=("1",))
        d["alpha"]["words"] = list(dict.fromkeys(["1"] + [g["head"]["names"][0] for g in picks]))
        galpha_trim(d, budget)
        d["alpha"]["words"] = list(dict.fromkeys(d["alpha"]["words"] + [g["head"]["names"][0] for g in picks]))
        out.append(d)
    return out


def nested_adj_family(seed, n):
    """shapes beyond the acceptors (judged by the ledger protocol only): an adjacent group inside an adjacent
    subcommand, an adjacent group inside a choice, next to enclosing options and a trailing positional"""
    rnd = random.Random(seed)
    out = []
    for i in range(n):
        pt = adjf("pt", ["many", "opt", "one"][i % 3], rf("ph", "one", "--point"), posm("x", "int"), posm("y", "int"))
        if i % 2:
            pt["members"].append({"kind": "pos", "id": "z", "vt": "int", "arity": "opt", "strict": "any", "help": "HELP-z", "metavar": "MVZ", "hidden": False})
        shape = i % 4
        if shape < 2:
            # (every other one also has a switch of the command declared IN FRONT of the group: claimed before the group
            # is looked for, it may stand inside a block and split it)
            inner = adjf("dr", ["many", "one"][shape], cmdhead("dh", "draw"), *([sw("q", "-q")] if i % 8 >= 4 else []), pt, sw("f", "--fill"))
            fields = [sw("o1", "-v"), inner]
        elif shape == 2:
            rc = adjf("rc", "many", rf("rh", "one", "--rect"), ar("w", "one", "int", "--ww"), ar("h", "one", "int", "--hh"))
            fields = [sw("o1", "-v"), altf("g0", "many", branch(pt), branch(rc))]
        else:
            inner = adjf("dr", "many", cmdhead("dh", "draw"), pt)
            inner2 = adjf("er", "many", cmdhead("eh", "erase"), ar("n", "one", "int", "--num"))
            fields = [sw("o1", "-v"), inner, inner2]
        tail = postail(pos("p0", ["opt", "many"][i % 2])) if shape != 3 else NOTAIL
        out.append(mkdef(f"nadj{seed}_{i}", level(fields, tail), maxlen=1))
    return out


def galphabet_size(d):
    a = d["alpha"]
    n = len(a["extras"]) + len(a["words"])
    for f in d["named"]:
        for it in field_leaves(f):
            names = it["shorts"] + it["longs"]
            if it["kind"] != "arg":
                n += len(names)
            else:
                if "sep" in a["spells"]:
                    n += len(names)
                if "eq" in a["spells"]:
                    n += len(names) * len(a["eqvals"])
                if "glued" in a["spells"]:
                    n += len(it["shorts"]) * len(a["eqvals"])
    return n


def galpha_trim(d, budget):
    a = d["alpha"]
    def est():
        k = galphabet_size(d)
        return sum(k ** i for i in range(a["maxlen"] + 1))
    if est() > budget and len(a["words"]) > 1:
        a["words"] = a["words"][:1]; a["eqvals"] = a["eqvals"][:1]
    if est() > budget and a["extras"]:
        a["extras"] = []
    while est() > budget and a["maxlen"] > 2:
        a["maxlen"] -= 1
    return d


# ---------------------------------------------------------------- spellings and byte-exact values (C02)
HOSTILE = ["", "=", "a=b", "v%20w", "%20", "-x", "--", "%C3%B1", "%FF", "f%FF=", "1", "z" * 300]
NAMESETS = [(["-n"], []), (["-%C3%B1"], []), ([], ["--name"]), ([], ["--n%C3%A4m%C3%A9"]),
            (["-n"], ["--name"]), (["-%C3%B1"], ["--n%C3%A4m%C3%A9"]), (["-n", "-N"], ["--name", "--alias"]),
            # short names of three bytes (lead byte 0xE0, the boundary of the width table, and 0xE2) and of four
            (["-%E0%B8%81"], []), (["-%E2%82%AC"], ["--%E0%B8%81%E0%B8%A5"]), (["-%F0%9F%98%80"], [])]


def spell_family(seed, n, maxlen=2, budget=9000, vals=None):
    rnd = random.Random(seed)
    out = []
    vts = ["str", "os", "path", "int"]
    arities = ["one", "opt", "many", "last"]
    while len(out) < n:
        i = len(out)
        shorts, longs = NAMESETS[i % len(NAMESETS)]
        vt = vts[(i // len(NAMESETS)) % 4] if i >= len(NAMESETS) else vts[i % 4]
        adj = (i % 5 == 4)
        it = leaf("a0", "arg", arities[i % 4], shorts=shorts, longs=longs, vt=vt, adj=adj)
        ctx = i % 4
        named = [it]
        if ctx in (1, 3):
            named = [sw("f1", "-v"), rf("f2", "count", "-c")] + named if i % 2 else named + [sw("f1", "-v"), sw("f2", "-c", hidden=(i % 8 == 3))]
        tail = postail(pos("p0", "opt")) if ctx in (2, 3) else NOTAIL
        ev = list(vals or HOSTILE)
        if len(ev) > 7:
            keep = ["", "=", "-x", "%FF"] + rnd.sample([v for v in ev if v not in ("", "=", "-x", "%FF")], 4)
            ev = keep
        # the short names of the help / version flags are cluster letters too (with or without a configured version)
        ex = ("vershort", "helpshort") if ctx == 3 or (ctx == 1 and i % 8 == 1) else ()
        d = mkdef(f"sp{seed}_{i}", level(named, tail, version=(i % 8 == 7)), maxlen=maxlen, extras=ex, spells=("sep", "eq", "glued"),
                  words=("w",), eqvals=ev, clusters=(ctx in (1, 3)), clusters3=(ctx == 1 and i % 3 == 0))
        trim_to_budget(d, budget)
        out.append(d)
    # a hidden flag is still a flag: it may be written inside a cluster
    d = mkdef(f"sp{seed}_hidden", level([sw("f1", "-v"), sw("f2", "-c", hidden=True), ar("a0", "opt", "str", "-n")], NOTAIL),
              maxlen=2, extras=(), spells=("sep", "glued"), words=("w",), eqvals=("1",), clusters=True)
    out.append(d)
    return out


def prefix_family(seed, maxlen=3):
    """names of one level of which one is the beginning of another (`--out` / `--output`): a name is the whole
    name, in whatever order the two are declared and written"""
    out = []
    pairs = [("--out", "--output"), ("--dry", "--dry-run"), ("--file", "--files"), ("--n", "--name")]
    for i, (a, b) in enumerate(pairs):
        for order in (0, 1):
            for shape in range(3):
                if shape == 0:
                    x, y = ar("a0", "opt", "str", a), ar("a1", "opt", "str", b)
                elif shape == 1:
                    x, y = sw("a0", a), sw("a1", b)
                else:
                    x, y = sw("a0", a), ar("a1", "many", "str", b)
                named = [x, y] if order == 0 else [y, x]
                named = named + [sw("f1", "-v")] if (i + shape) % 2 else named
                tail = postail(pos("p0", "opt")) if (i + order + shape) % 3 == 0 else NOTAIL
                out.append(mkdef(f"px{seed}_{i}_{order}_{shape}", level(named, tail), maxlen=maxlen, extras=(),
                                 spells=("sep", "eq"), words=("w",), eqvals=("1", "x")))
    return out


def digit_family(seed, maxlen=2):
    """a digit is a short name like any other (`-1 FILE`, `-v1 FILE`), for arguments and for flags"""
    out = []
    for i in range(6):
        vt = ["str", "int", "os"][i % 3]
        a = ar("a0", ["one", "opt", "many"][i % 3], vt, "-1", "--mate1")
        named = [a] if i % 2 == 0 else [sw("f1", "-v"), a, sw("f2", "-2")]
        tail = postail(pos("p0", "many" if i % 4 == 1 else "opt")) if i % 2 else NOTAIL
        out.append(mkdef(f"dg{seed}_{i}", level(named, tail), maxlen=maxlen, extras=(), spells=("sep", "eq", "glued"),
                         words=("w", "5"), eqvals=("1", "x"), clusters=bool(i % 2)))
    return out


def group_family(seed, maxlen=4, budget=8000):
    """optional / repeated / plain groups of two items (a choice with a single branch): deterministic coverage"""
    out = []
    for p in range(4, len(BRANCH_POOL)):
        for wrap in ("one", "opt", "many", "some", "count"):
            g = altf("g0", wrap, BRANCH_POOL[p](0))
            others = [sw("o1", "-v")] if (p + len(out)) % 2 else []
            tail = postail(pos("p0", "opt")) if len(out) % 3 == 0 else NOTAIL
            d = mkdef(f"grp{seed}_{len(out)}", level(others + [g], tail), maxlen=maxlen, extras=("unk",) if len(out) % 2 else (),
                      spells=("sep",) if len(out) % 2 else ("eq",), words=("1", "x") if len(out) % 4 == 0 else ("1",))
            galpha_trim(d, budget)
            out.append(d)
    return out


# ---------------------------------------------------------------- ambiguous short clusters (C10, C20)
def amb_family(seed, n, maxlen=2, budget=10**9):
    """a short letter that is a flag at one level and an argument at another: multi-letter items
    containing it cannot be tokenised"""
    rnd = random.Random(seed)
    out = []
    while len(out) < n:
        inner = level([ar("c0", rnd.choice(["opt", "one"]), "str", "-a"), sw("c1", "-c")],
                      postail(pos("cp", "opt")) if len(out) % 2 == 0 else NOTAIL)
        top = level([sw("t0", "-a"), sw("t1", "-b")] + ([ar("t2", "opt", "str", "-o")] if len(out) % 2 else []),
                    cmdtail([cmd("one", inner)], optional=bool(len(out) % 3)), version=bool(len(out) % 2))
        d = mkdef(f"amb{seed}_{len(out)}", top, maxlen=maxlen, extras=("help", "unk") if len(out) % 2 else ("help", "dd"),
                  spells=("sep", "glued") if len(out) % 2 else ("eq", "glued"), words=("1",), clusters=True)
        trim_to_budget(d, budget)
        out.append(d)
    return out


def prefix_cmd_family(seed, n):
    """sibling subcommands whose names (and a short alias) are prefixes of one another (C14)"""
    rnd = random.Random(seed)
    out = []
    for i in range(n):
        sub = lambda k: level([sw(f"s{k}", f"-{'xyz'[k]}")], NOTAIL)
        names = [["ab"], ["abc"], ["abd"]] if i % 2 == 0 else [["build"], ["bench"], ["b2"]]
        order = list(range(3))
        rnd.shuffle(order)
        cmds = []
        for k in order:
            cmds.append(cmd(names[k], sub(k), shorts=(["a"] if i % 2 == 0 else ["b"]) if k == (i // 2) % 3 else []))
        lvl = level([sw("t0", "-v")] if i % 3 else [], cmdtail(cmds, optional=bool(i % 2)))
        out.append(mkdef(f"pc{seed}_{i}", lvl, maxlen=2, extras=(), spells=("sep",), words=("1",)))
    return out



def gguard_family(seed, n, maxlen=4, budget=5000):
    """a validation (`guard`) attached to a whole group - a plain `construct!(n, v)` or an adjacent one - under a
    repetition: a later occurrence that is refused fails the run (it is neither dropped nor taken for absence).  The
    specification sees the validation on the member whose value it looks at; the builder attaches it to the group"""
    out = []
    for i in range(n):
        wrap = ["many", "some", "opt", "one"][i % 4]
        a = ar("n0", "one", "int", "-n")
        a["guard"], a["guard_at_group"] = True, True
        if i % 2 == 0:
            g = altf("g0", wrap, branch(a, sw("v0", "-v")))
        else:
            g = adjf("g0", wrap if wrap != "some" else "many", rf("h0", "one", "--point"), a)
        g["guard"] = True
        named = [g] if i % 3 else [sw("o1", "-q"), g]
        d = mkdef(f"gguard{seed}_{i}", level(named, NOTAIL if i % 4 < 2 else postail(pos("p0", "opt"))), maxlen=maxlen, extras=(),
                  spells=("sep",), words=("1", "2"))
        galpha_trim(d, budget)
        d["alpha"]["words"] = ["1", "2"]
        d["alpha"]["eqvals"] = ["1", "2"]
        out.append(d)
    return out


def cmdcluster_family(seed, n, maxlen=2):
    """bundles and glued values inside subcommands other than the first one of their level (the short names every command
    declares are known to the tokeniser, not only those of the first) - small alphabets by construction"""
    out = []
    for i in range(n):
        first = level([sw("a0", "-a"), sw("a1", "-b")], NOTAIL)
        second = level([sw("f0", "-f"), rf("f1", "count", "-q"), ar("f2", ["opt", "one", "many"][i % 3], "str", "-r")],
                       NOTAIL if i % 2 else postail(pos("sp", "opt")))
        third = level([sw("t0", "-t"), sw("t1", "-u")], NOTAIL)
        cmds = [cmd("first", first), cmd(["push", "p2"], second)] + ([cmd("third", third)] if i % 2 else [])
        root = level([sw("r0", "-v")] if i % 3 == 0 else [], cmdtail(cmds, optional=(i % 4 == 3)))
        d = mkdef(f"cmdcl{seed}_{i}", root, maxlen=maxlen, extras=(), spells=("sep", "glued"), words=("x",), clusters=True)
        out.append(d)
    return out


def hidpos_family(seed, maxlen=3):
    """positional items under `hide()`: hiding changes the help, never what `--` means for the item"""
    out = []
    shapes = [(("many", "non_strict"), ("opt", "strict")), (("opt", "non_strict"), ("many", "strict")),
              (("many", "non_strict"), ("one", "strict")), (("many", "any"), None), (("opt", "non_strict"), None)]
    for i, (a, b) in enumerate(shapes):
        p1 = pos("p1", a[0], a[1]); p1["hidden"] = True
        p1["hide_inner"] = True         # `.hide().many()` as well as `.many().hide()`
        items = [p1] + ([pos("p2", b[0], b[1])] if b else [])
        if b and i % 2:
            items[1]["hidden"] = (b[0] != "one")
        named = [sw("o1", "-v")] if i % 2 else []
        out.append(mkdef(f"hidpos{seed}_{i}", level(named, postail(*items)), maxlen=maxlen, extras=("dd",), spells=("sep",), words=("x", "1")))
    return out


def poslast_family(seed, maxlen=3):
    """`last` over a positional item: every word it can take is taken (a `non_strict` one stops at `--`), the value
    is the last one; what it cannot take is somebody else's or a failure"""
    out = []
    for i in range(6):
        st = ["any", "non_strict", "non_strict"][i % 3]
        items = [pos("p0", "last", st, ["str", "int"][i % 2])]
        if i % 3 == 2:
            items.append(pos("p1", "opt", "strict"))
        named = [sw("o1", "-v")] if i % 2 else []
        out.append(mkdef(f"plast{seed}_{i}", level(named, postail(*items)), maxlen=maxlen, extras=("dd",), spells=("sep",), words=("1", "x")))
    return out


def subver_family(seed, n, maxlen=3):
    """a version configured on a subcommand only (or on the root only): the short name of the version flag is a flag
    to the tokeniser everywhere, so `leaf -sV` is `leaf -s -V` and answers with the version the leaf declares"""
    out = []
    for i in range(n):
        leaf = level([sw("s0", "-s"), sw("s1", "-t")] if i % 2 else [sw("s0", "-s")], NOTAIL if i % 3 else postail(pos("lp", "opt")),
                     version=(i % 4 != 3), vtag="1")
        other = level([sw("o0", "-o")], NOTAIL, version=(i % 4 == 2), vtag="2")
        cmds = [cmd("leaf", leaf), cmd("other", other)]
        if i % 5 == 4:
            cmds = [cmd("mid", level([sw("m0", "-m")], cmdtail(cmds)))]
        root = level([sw("r0", "-v")] if i % 3 == 0 else [], cmdtail(cmds), version=(i % 4 == 3), vtag="0")
        out.append(mkdef(f"subver{seed}_{i}", root, maxlen=maxlen, extras=("ver", "vershort", "helpshort"), spells=("sep",),
                         words=("x",), clusters=True))
    return out


def alt_rep_family(seed, n, maxlen=4, budget=5000):
    """repeated and counted flags as members of the branches of a choice"""
    rnd = random.Random(seed)
    out = []
    for i in range(n):
        b1 = [branch(rf("a0", "one", "--aa"), rf("a1", "count", "-c")), branch(rf("a0", "one", "--aa"), rf("a1", "many", "-m")),
              branch(ar("a0", "one", "str", "--aa"), rf("a1", "some", "-s"))][i % 3]
        b2 = [branch(rf("b0", "one", "--bb")), branch(rf("b0", "one", "--bb"), sw("b1", "-w")), branch(rf("b0", "count", "--bb"))][(i // 3) % 3]
        wrap = ["one", "opt", "many", "some"][i % 4]
        if b2["fields"][0]["arity"] == "count" and wrap in ("many", "some"):
            wrap = "opt"        # (a branch that always succeeds on nothing under a repetition is the fuel rule's business)
        g = altf("g0", wrap, b1, b2) if i % 2 else altf("g0", wrap, b2, b1)
        named = [g] if i % 5 else [sw("o1", "-v"), g]
        d = mkdef(f"altrep{seed}_{i}", level(named, NOTAIL if i % 2 else postail(pos("p0", "opt"))), maxlen=maxlen, extras=("unk",),
                  spells=("sep",), words=("x",))
        galpha_trim(d, budget)
        out.append(d)
    return out


def edge_family(seed, n, maxlen=2, budget=None):
    """spellings at the edges, small alphabets by construction (no trimming): (A) several short names per item inside
    bundles, (B) an attached value that is empty (`--name=`, `-n=`; given to a flag: `--verbose=`, `-vv=`), (C) values
    that are not text"""
    out = []
    for i in range(n):
        k = i % 3
        tail = [postail(pos("p0", "opt")), NOTAIL, postail(pos("p0", "many"))][(i // 3) % 3]
        if k == 0:
            named = [sw("s0", "-v", "-l"), rf("r0", "count", "-d", "-D")] + ([ar("a0", "opt", "str", "-n", "-N")] if (i // 3) % 2 else [])
            d = mkdef(f"edge{seed}_{i}", level(named, tail), maxlen=maxlen, extras=(), spells=("sep", "glued"), words=("x",), clusters=True)
        elif k == 1:
            # (short names of one, three and four bytes: lead bytes 0x6E, 0xE0, 0xF0)
            a = ar("a0", ["one", "opt", "many"][(i // 3) % 3], ["str", "int", "os"][(i // 9) % 3],
                   ["-n", "-%E0%B8%81", "-%F0%9F%A6%80"][(i // 3) % 3], "--name")
            named = [sw("s0", "-v", "--verbose"), a]
            d = mkdef(f"edge{seed}_{i}", level(named, tail), maxlen=maxlen, extras=("dd",) if (i // 3) % 2 else (), spells=("sep", "eq"),
                      words=("x",), eqvals=("", "x"), clusters=True)
            d["alpha"]["flageq"] = True
        else:
            a = ar("a0", ["one", "opt", "many"][(i // 3) % 3], ["str", "int", "os", "path"][(i // 3) % 4], "-n", "--name")
            # (no `--` here: the specification knows non-text values by their spelling, not `--name=<bytes>` as a word)
            d = mkdef(f"edge{seed}_{i}", level([a, sw("s0", "-v")], tail), maxlen=maxlen, extras=(), spells=("sep", "eq"),
                      words=("%FF", "x"), eqvals=("%FF", "x"), clusters=False)
        out.append(d)
    return out


# ---------------------------------------------------------------- batteries
def battery_family(seed, n, maxlen=3, budget=6000):
    """`verbose_and_quiet_by_number` / `verbose_by_slice` (two neighbouring repeated flags read as one number) among other
    items and `cargo_helper` (the cargo subcommand's name may lead the line) - engine CmdLine"""
    rnd = random.Random(seed)
    out = []
    for i in range(n):
        v, q = rf("bv", "many", "-v", "--verbose"), rf("bq", "many", "-q", "--quiet")
        if i % 3 == 2:
            v["battery"] = {"k": "slice", "offset": rnd.choice([0, 1, 2]), "min": 0, "max": 3}
        else:
            lo = rnd.choice([-2, -1, 0])
            v["battery"] = {"k": "vq", "offset": rnd.choice([-1, 0, 1, 2]), "min": lo, "max": lo + rnd.choice([1, 2, 3])}
        others = [sw("o1", "-a", "--all"), ar("o2", "opt", "str", "-n", "--name"), rf("o3", "count", "-c")]
        rnd.shuffle(others)
        k = i % 4
        named = [v, q] if k == 0 else [others[0], v, q] if k == 1 else [v, q, others[0]] if k == 2 else []
        tail = [NOTAIL, postail(pos("p0", "opt")), postail(pos("p0", "many")), cmdtail([cmd("pretty", level([sw("s0", "-s")], NOTAIL))], optional=True)][(i // 2) % 4]
        lvl = level(named if named else [others[0], others[1]], tail, version=(i % 5 == 0))
        if k == 3 or i % 2:
            lvl["cargo"] = "pretty"
        d = mkdef(f"bat{seed}_{i}", lvl, maxlen=maxlen, extras=("dd", "unk") if i % 2 else ("help",), spells=("sep", "eq"),
                  words=("pretty", "x"), clusters=(k != 3 and i % 2 == 0))
        trim_to_budget(d, budget)
        out.append(d)
    return out


def toggle_family(seed, n, maxlen=3, budget=4000):
    """`toggle_flag`: the last of two required flags decides - engine GroupLine"""
    out = []
    for i in range(n):
        g = altf("g0", "many", branch(rf("t0", "one", "--on", "-o")), branch(rf("t1", "one", "--off")))
        g["battery"] = {"k": "toggle"}
        named = [g] if i % 3 == 0 else [sw("o1", "-v"), g] if i % 3 == 1 else [g, ar("o2", "opt", "str", "--name")]
        d = mkdef(f"tog{seed}_{i}", level(named, NOTAIL if i % 2 else postail(pos("p0", "opt"))), maxlen=maxlen, extras=("unk",),
                  spells=("sep",), words=("x",))
        galpha_trim(d, budget)
        out.append(d)
    return out


# ---------------------------------------------------------------- help / documentation (C12, C16)
def more(it, rnd):
    """a second paragraph for a help text (`help_more`) and cut points (character offsets into first + blank line + second)
    at word starts: the builder hands bpaf a Doc of fragments with alternating styles"""
    it["help_more"] = "second paragraph of " + it["help"].lower().replace("help-", "zq") + " with words"
    full = it["help"] + "\n\n" + it["help_more"]
    starts = [i for i in range(1, len(full)) if full[i - 1] in " \n" and full[i] not in " \n"]
    it["help_cuts"] = sorted({rnd.choice(starts) for _ in range(rnd.randint(1, 5))})


def decorate_for_help(d, rnd, hostile=None):
    """hidden parts, usage decorations, group headers and level texts; the item lists must not care"""
    n = 0
    for lvl in all_levels(d):
        n += 1
        tag = f"{d['id']}x{n}"
        if rnd.random() < 0.7:
            lvl["descr"] = f"DESCR-{tag}"
        if rnd.random() < 0.5:
            lvl["header"] = f"HEADER-{tag}"
        if rnd.random() < 0.5:
            lvl["footer"] = f"FOOTER-{tag}"
        if rnd.random() < 0.12:
            lvl["usage"] = f"Usage: app USAGE-{tag}"      # the whole usage line replaced (usage / with_usage)
            lvl["usage_token"] = f"USAGE-{tag}"
        for f in lvl["named"]:
            for it in field_leaves(f):
                it["help"] = f"HELP-{tag}-{it['id']}"
                it["metavar"] = f"MV{n}{it['id'].upper()}"
                if rnd.random() < 0.2:
                    it["env"] = f"BPAFENV_{tag}_{it['id']}".upper().replace("-", "_")
                if it.get("arity") in ("fallback", "fallback_with") and rnd.random() < 0.7:
                    it["show_default"] = rnd.choice(["display", "debug", "format"])
            if f["kind"] in ("switch", "reqflag", "arg"):
                r = rnd.random()
                if r < 0.15:
                    f["hidden"] = True
                elif r < 0.3:
                    f["hide_usage"] = True
                elif r < 0.4:
                    f["custom_usage"] = f"CUSTOM-{tag}"
                elif r < 0.5:
                    f["group_help"] = f"GROUP-{tag}-{f['id']}"
            elif rnd.random() < 0.5:
                f["group_help"] = f"GROUP-{tag}-{f['id']}"
                # a group whose first member is hidden still lists the others
                if f["kind"] == "alt" and rnd.random() < 0.6:
                    for b in f["branches"]:
                        if len(b["fields"]) > 1:
                            b["fields"][0]["hidden"] = True
        # some help texts have a second paragraph and reach bpaf as a Doc of several styled fragments
        for f in lvl["named"]:
            for it in field_leaves(f):
                if rnd.random() < 0.25:
                    more(it, rnd)
            # ... and so do some group headers
            if f.get("group_help") and rnd.random() < 0.4:
                f["gh_words"] = [f["group_help"], "header", "of", "several", "styled", "words"]
                f["group_help"] = " ".join(f["gh_words"])
                starts = [i for i in range(1, len(f["group_help"])) if f["group_help"][i - 1] == " "]
                f["gh_cuts"] = sorted(rnd.sample(starts, rnd.randint(1, 3)))
        t = lvl["tail"]
        if t["kind"] == "pos":
            for p in t["items"]:
                p["help"] = f"HELP-{tag}-{p['id']}"
                p["metavar"] = f"MV{n}{p['id'].upper()}"
                if rnd.random() < 0.25:
                    more(p, rnd)
                # a positional (strict or not) under a header of its own
                if rnd.random() < 0.3:
                    p["group_help"] = f"GROUP-{tag}-{p['id']}"
        if t["kind"] == "cmd":
            for c in t["cmds"]:
                c["help"] = f"HELP-{tag}-cmd-{c['names'][0]}"
                # a command under `hide` (not when it is the only one: the usage line would lose its COMMAND)
                if len(t["cmds"]) > 1 and rnd.random() < 0.12 and not any(x.get("hidden") for x in t["cmds"]):
                    c["hidden"] = True
                # a command without a help text of its own is listed with the first line of its description, here a
                # Doc of several styled fragments
                if rnd.random() < 0.2:
                    c["help"] = ""
                    words = [f"CMDTEXT-{tag}-{c['names'][0]}", "listed", "with", "its", "description"]
                    c["level"]["descr_pending"] = words
            if lvl["named"] and lvl["named"][-1]["kind"] in ("switch", "reqflag", "arg") and not lvl["named"][-1].get("hidden") \
                    and rnd.random() < 0.4:
                t["grouped"] = f"GROUP-{tag}-cmds"
        for f in lvl["named"]:
            if f["kind"] == "adj":
                for m in f["members"]:
                    if m["kind"] == "pos":
                        m["help"] = f"HELP-{tag}-{m['id']}"
                        m["metavar"] = f"MV{n}{m['id'].upper()}"
    for lvl in all_levels(d):
        for c in lvl["tail"].get("cmds", []):
            w = c["level"].pop("descr_pending", None)
            if w:
                text = " ".join(w)
                c["level"]["descr"] = text + "\n\nsecond paragraph of the description"
                starts = [i for i in range(1, len(text)) if text[i - 1] == " "]
                c["level"]["descr_cuts"] = sorted(rnd.sample(starts, 2))
                c["listed"] = list(w)
    return d


def samename_family(seed, n):
    """different commands that carry the same name at the same depth under different parents (`acct user add`,
    `acct group add`), or the same name at different depths: every one of them is a command level of its own"""
    out = []
    for i in range(n):
        la = level([ar("ua", "opt", "str", "--login")], NOTAIL)
        lb = level([sw("ub", "--purge")], NOTAIL)
        lc = level([ar("ga", "opt", "int", "--gid")], postail(pos("gp", "opt")) if i % 2 else NOTAIL)
        ld = level([sw("gb", "--force")], NOTAIL)
        user = cmd("user", level([sw("us", "-u")] if i % 3 == 0 else [], cmdtail([cmd("add", la), cmd("del", lb)])))
        group = cmd("group", level([], cmdtail([cmd("add", lc), cmd("remove" if i % 2 else "del", ld)], optional=bool(i % 2))))
        cmds = [user, group]
        if i % 3 == 1:
            cmds.append(cmd("add", level([sw("ra", "--root-add")], NOTAIL)))    # ... and the same name one level up
        out.append(mkdef(f"same{seed}_{i}", level([sw("t0", "-v")] if i % 2 else [], cmdtail(cmds)), maxlen=2,
                         extras=("help",), spells=("sep",), words=("1",)))
    return out


def nohelp_family(seed, n):
    """items without a help text of their own: named ones are listed by name, positional ones are not listed - also in
    front of a group under a header, whose other members are still listed"""
    out = []
    for i in range(n):
        shape = i % 4
        if shape == 0:
            g = altf("g0", ["opt", "one", "many"][i % 3], branch(posb("q0", "str"), posb("q1", "int")),
                     *([branch(rf("b1", "one", "--flag1"))] if i % 8 < 4 else []))
            d = mkdef(f"nh{seed}_{i}", level([sw("o1", "-v"), g] if i % 8 < 4 else [g], NOTAIL), maxlen=1)
        elif shape == 1:
            d = mkdef(f"nh{seed}_{i}", level([sw("n0", "-x", "--exact"), ar("n1", "opt", "str", "--name"), sw("n2", "-v")],
                                             postail(pos("p0", "opt")) if i % 8 < 4 else NOTAIL), maxlen=1)
        elif shape == 2:
            d = mkdef(f"nh{seed}_{i}", level([sw("o1", "-v")], postail(pos("p0", "one"), pos("p1", "opt"), pos("p2", "many"))), maxlen=1)
        else:
            sub = level([sw("s0", "--deep")], postail(pos("p0", "one"), pos("p1", "opt")))
            d = mkdef(f"nh{seed}_{i}", level([ar("n1", "opt", "str", "--name")], cmdtail([cmd("run", sub), cmd("stop", level([], NOTAIL))])), maxlen=1)
        d["nohelp"] = {0: ["q0"], 1: ["n0", "n1"], 2: ["p0", "p2"] if i % 8 < 4 else ["p1"], 3: ["p0", "n1"]}[shape]
        if shape == 0:
            d["force_gh"] = "g0"
        out.append(d)
    return out


def strip_help(d):
    """after decorate_for_help: the items named in d['nohelp'] lose their help text"""
    ids = set(d.pop("nohelp", []))
    force = d.pop("force_gh", None)
    n = 0
    for lvl in all_levels(d):
        n += 1
        items = [it for f in lvl["named"] for it in field_leaves(f)] + list(lvl["tail"].get("items", [])) + \
            [x for f in lvl["named"] if f["kind"] == "alt" for b in f["branches"] for x in b["fields"] if x["kind"] == "pos"]
        for it in items:
            if it["id"] in ids:
                it["help"] = ""
                for k in ("help_more", "help_cuts", "help_all_nested", "group_help", "gh_words", "gh_cuts", "show_default"):
                    it.pop(k, None)
                it["hidden"] = False
        for f in lvl["named"]:
            if f["id"] == force:
                if not f.get("group_help"):
                    f["group_help"] = f"GROUP-{d['id']}x{n}-{f['id']}"
                for b in f["branches"]:
                    for x in b["fields"]:
                        x["hidden"] = False
    return d


def help_family(seed, n):
    rnd = random.Random(seed)
    fam = conv_family(seed, n // 3, max_named=4, maxlen=2, budget=10**9) + cmd_family(seed + 1, n // 3, depth=3, maxlen=2, budget=10**9) \
        + alt_family(seed + 2, n // 6, maxlen=2, budget=10**9) + adj_family(seed + 3, n - 2 * (n // 3) - n // 6, maxlen=2, budget=10**9)
    fam += samename_family(seed + 4, max(2, n // 30))
    nh = nohelp_family(seed + 5, max(8, n // 30))
    fam = [decorate_for_help(d, rnd) for d in fam] + [strip_help(decorate_for_help(d, rnd)) for d in nh]
    # the same visible name in two alternatives, differing in kind / metavariable (optional-value idiom)
    for i in range(max(2, n // 20)):
        a = ar("j0", "one", "str", "--jobs", adj=True)
        b = rf("j1", "one", "--jobs")
        c = ar("k0", "one", "str", "--from")
        e = ar("k1", "one", "int", "--from")
        for x in (a, b):
            x["help"] = f"HELP-dup{i}-jobs"
        for x in (c, e):
            x["help"] = f"HELP-dup{i}-from"
        a["metavar"], c["metavar"], e["metavar"] = "MVJN", "MVURL", "MVFILE"
        branches = [branch(a), branch(b)] if i % 2 == 0 else [branch(b), branch(a)]
        g1 = altf("g0", "opt", *branches)
        g2 = altf("g1", "opt", branch(c), branch(e))
        d = mkdef(f"dup{seed}_{i}", level([sw("o1", "-v"), g1, g2] if i % 3 else [g2, g1]), maxlen=1)
        fam.append(d)
    return fam



def cmd_or_pos_family(seed, n, maxlen=3, budget=5000):
    """a choice between subcommands and a positional parser (C10: help after the command name wins)"""
    rnd = random.Random(seed)
    out = []
    for i in range(n):
        sub = level([sw("cs", "-j"), rf("cl", "opt", "--list")][: 1 + i % 2], postail(pos("cp", "opt")) if i % 3 == 0 else NOTAIL,
                    version=(i % 4 == 1), vtag="s")
        ep = pos("ep", ["many", "opt", "one", "some"][i % 4])
        named = [sw("t0", "-v")] if i % 2 else []
        lvl = level(named, cmdtail([cmd(["run", "r2"], sub)], optional=(i % 5 == 0), else_pos=[ep]), version=(i % 4 == 2))
        d = mkdef(f"cop{seed}_{i}", lvl, maxlen=maxlen, extras=("help", "ver", "dd") if i % 2 else ("help", "unk"),
                  spells=("sep",), words=("x",))
        trim_to_budget(d, budget)
        out.append(d)
    return out



def replace_help_names(d, rnd, p=0.3):
    """some levels configure their own names for the help / version flags (help_parser / version_parser)"""
    for lvl in all_levels(d):
        if rnd.random() < p:
            lvl["help_names"] = ["--aide"]
            lvl["help_flag"] = {"shorts": [], "longs": ["--aide"], "help": "HELP-aide"}
        if lvl["version"] and rnd.random() < p:
            lvl["ver_names"] = ["--vers"]
            lvl["version_flag"] = {"shorts": [], "longs": ["--vers"], "help": "HELP-vers"}
    return d
