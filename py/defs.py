"""Parser definitions ("programs") shared by the TLA+ specification and the Rust harness.

One JSON document per definition; TLC reads it through Json!ndJsonDeserialize (objects become
records, arrays sequences), the harness builds the real bpaf parser from the same text.  All
record fields the specification touches are always present (TLC has no optional fields)."""
import itertools, json, random


def leaf(id, kind, arity="one", shorts=(), longs=(), vt=None, env="", adj=False, guard=False,
         hidden=False, help=""):
    if vt is None:
        vt = "str" if kind == "arg" else "none"
    if kind == "switch":
        arity = "sw"
    return {"id": id, "kind": kind, "arity": arity, "vt": vt,
            "shorts": list(shorts), "longs": list(longs),
            "letters": [s[1:] for s in shorts], "env": env, "adj": adj, "guard": guard,
            "hidden": hidden, "help": help or f"HELP-{id}", "catch": False}


def sw(id, *names, **kw):
    return leaf(id, "switch", shorts=[n for n in names if not n.startswith("--")],
                longs=[n for n in names if n.startswith("--")], **kw)


def rf(id, arity, *names, **kw):
    return leaf(id, "reqflag", arity, shorts=[n for n in names if not n.startswith("--")],
                longs=[n for n in names if n.startswith("--")], **kw)


def ar(id, arity, vt, *names, **kw):
    return leaf(id, "arg", arity, vt=vt, shorts=[n for n in names if not n.startswith("--")],
                longs=[n for n in names if n.startswith("--")], **kw)


def pos(id, arity="one", strict="any", vt="str"):
    return {"id": id, "arity": arity, "strict": strict, "vt": vt, "help": f"HELP-{id}"}


NOTAIL = {"kind": "none"}


def postail(*items):
    return {"kind": "pos", "items": list(items)}


def cmd(names, level, shorts=(), adjacent=False):
    names = [names] if isinstance(names, str) else list(names)
    return {"names": names, "shorts": list(shorts), "level": level, "adjacent": adjacent,
            "help": f"HELP-cmd-{names[0]}"}


def cmdtail(cmds, optional=False):
    return {"kind": "cmd", "optional": optional, "cmds": list(cmds)}


def level(named, tail=NOTAIL, version=False, vtag="0"):
    return {"named": list(named), "tail": tail, "version": version, "vtag": vtag}


def alpha(words=("1", "x"), spells=("sep", "eq"), extras=("dd", "help", "unk"), maxlen=3,
          envvals=("UNSET",), clusters=False):
    return {"words": list(words), "spells": list(spells), "extras": list(extras),
            "maxlen": maxlen, "envvals": list(envvals), "clusters": clusters}


def mkdef(id, lvl, **alpha_kw):
    d = dict(lvl)
    d["id"] = id
    d["alpha"] = alpha(**alpha_kw)
    return d


def all_levels(lvl):
    yield lvl
    if lvl["tail"]["kind"] == "cmd":
        for c in lvl["tail"]["cmds"]:
            yield from all_levels(c["level"])


def alphabet_size(d):
    a = d["alpha"]
    n = len(a["extras"])
    words = set(a["words"])
    for l in all_levels(d):
        for it in l["named"]:
            names = it["shorts"] + it["longs"]
            if it["kind"] != "arg":
                n += len(names)
            else:
                if "sep" in a["spells"]:
                    n += len(names)
                if "eq" in a["spells"]:
                    n += len(names) * len(a["words"])
                if "glued" in a["spells"]:
                    n += len(it["shorts"]) * len(a["words"])
        if a.get("clusters"):
            f = sum(len(it["shorts"]) for it in l["named"] if it["kind"] != "arg")
            g = sum(len(it["shorts"]) for it in l["named"] if it["kind"] == "arg")
            n += f * f + f * g * (len(a["words"]) + 1)
        if l["tail"]["kind"] == "cmd":
            for c in l["tail"]["cmds"]:
                words |= set(c["names"]) | set(c["shorts"])
    return n + len(words)


def est_states(d):
    k = alphabet_size(d)
    return sum(k ** i for i in range(d["alpha"]["maxlen"] + 1))


def write_ndjson(path, defs):
    with open(path, "w") as f:
        for d in defs:
            f.write(json.dumps(d, sort_keys=True) + "\n")


# ---------------------------------------------------------------- families

NAMED_POOL = [
    lambda i: sw(f"s{i}", f"-{'abcdefgh'[i]}"),
    lambda i: sw(f"s{i}", f"--sw{i}"),
    lambda i: sw(f"s{i}", f"-{'abcdefgh'[i]}", f"--sw{i}"),
    lambda i: rf(f"r{i}", "one", f"-{'abcdefgh'[i]}"),
    lambda i: rf(f"r{i}", "count", f"-{'abcdefgh'[i]}", f"--rf{i}"),
    lambda i: rf(f"r{i}", "many", f"--rf{i}"),
    lambda i: rf(f"r{i}", "opt", f"--rf{i}"),
    lambda i: ar(f"a{i}", "one", "str", f"-{'abcdefgh'[i]}"),
    lambda i: ar(f"a{i}", "one", "int", f"--ar{i}"),
    lambda i: ar(f"a{i}", "opt", "int", f"-{'abcdefgh'[i]}", f"--ar{i}"),
    lambda i: ar(f"a{i}", "opt", "str", f"--ar{i}", f"--alias{i}"),
    lambda i: ar(f"a{i}", "many", "str", f"-{'abcdefgh'[i]}"),
    lambda i: ar(f"a{i}", "many", "int", f"--ar{i}"),
    lambda i: ar(f"a{i}", "some", "str", f"--ar{i}"),
    lambda i: ar(f"a{i}", "some", "int", f"-{'abcdefgh'[i]}"),
    lambda i: ar(f"a{i}", "fallback", "int", f"--ar{i}"),
    lambda i: ar(f"a{i}", "fallback", "str", f"-{'abcdefgh'[i]}"),
    lambda i: ar(f"a{i}", "last", "int", f"-{'abcdefgh'[i]}", f"--ar{i}"),
    lambda i: ar(f"a{i}", "last", "str", f"--ar{i}"),
    lambda i: ar(f"a{i}", "fallback_with", "str", f"--ar{i}"),
    lambda i: sw(f"s{i}", f"-{'abcdefgh'[i]}", f"-{'ABCDEFGH'[i]}"),
    lambda i: ar(f"a{i}", "opt", "str", f"-{'abcdefgh'[i]}", f"-{'ABCDEFGH'[i]}", f"--ar{i}"),
    lambda i: rf(f"r{i}", "count", f"-{'abcdefgh'[i]}"),
    lambda i: ar(f"a{i}", "many", "str", f"-{'abcdefgh'[i]}", f"--ar{i}"),
]

POS_TAILS = [
    NOTAIL,
    postail(pos("p1", "one")),
    postail(pos("p1", "opt")),
    postail(pos("p1", "many")),
    postail(pos("p1", "some", vt="int")),
    postail(pos("p1", "one", vt="int"), pos("p2", "opt")),
    postail(pos("p1", "one"), pos("p2", "many")),
    postail(pos("p1", "one"), pos("p2", "one"), pos("p3", "some")),
    postail(pos("p1", "opt", "non_strict"), pos("p2", "many", "strict")),
    postail(pos("p1", "one", "strict")),
    postail(pos("p1", "many", "non_strict"), pos("p2", "opt", "strict")),
]


def conv_family(seed, n_defs, max_named=3, maxlen=3, budget=6000, extras=("dd", "unk")):
    """The conventional fragment of C01: named items of every kind/arity/naming, every tail shape.
    Pairwise-style coverage: a seeded sample in which every pool entry and every tail occurs."""
    rnd = random.Random(seed)
    defs = []
    pool_cycle = list(range(len(NAMED_POOL)))
    tails_cycle = list(range(len(POS_TAILS) + 3))
    k = 0
    while len(defs) < n_defs:
        rnd.shuffle(pool_cycle)
        for start in range(0, len(pool_cycle), max_named):
            if len(defs) >= n_defs:
                break
            nn = rnd.randint(1, max_named)
            picks = pool_cycle[start:start + nn]
            named = [NAMED_POOL[p](i) for i, p in enumerate(picks)]
            t = tails_cycle[k % len(tails_cycle)]
            k += 1
            if t < len(POS_TAILS):
                lvl = level(named, POS_TAILS[t], version=rnd.random() < 0.3)
            else:
                lvl = level(named, cmd_tail_variant(t - len(POS_TAILS), rnd), version=rnd.random() < 0.5)
            spells = rnd.choice([("sep", "eq"), ("sep", "glued"), ("sep", "eq", "glued"), ("eq",)])
            d = mkdef(f"conv{seed}_{len(defs)}", lvl, maxlen=maxlen, spells=spells, extras=extras,
                      clusters=rnd.random() < 0.5, words=rnd.choice([("1", "x"), ("1", "2"), ("1",)]))
            # keep the exhaustive state count within the budget by trimming the alphabet
            trim_to_budget(d, budget)
            defs.append(d)
    return defs


def cmd_tail_variant(v, rnd):
    inner_a = level([sw("ca", "-x")], postail(pos("cp", "opt")))
    inner_b = level([ar("cb", "one", "int", "-y")], NOTAIL)
    deep = level([sw("dd1", "-z")], NOTAIL)
    inner_c = level([ar("cc", "opt", "str", "--cc")], cmdtail([cmd("deep", deep)]), version=True, vtag="c")
    if v == 0:
        return cmdtail([cmd("one", inner_a)])
    if v == 1:
        return cmdtail([cmd(["one", "uno"], inner_a, shorts=["o"]), cmd("two", inner_b)])
    return cmdtail([cmd("one", inner_a), cmd("two", inner_c)], optional=True)


def trim_to_budget(d, budget):
    a = d["alpha"]
    steps = [lambda: a.__setitem__("words", a["words"][:1]) if len(a["words"]) > 1 else None,
             lambda: a.__setitem__("spells", a["spells"][:1]) if len(a["spells"]) > 1 else None,
             lambda: a.__setitem__("clusters", False),
             lambda: a.__setitem__("maxlen", a["maxlen"] - 1) if a["maxlen"] > 2 else None]
    i = 0
    while est_states(d) > budget and i < len(steps):
        steps[i]()
        i += 1
    return d
