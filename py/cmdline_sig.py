"""Signatures of CmdLine mismatches (the features that make a case fail) and single-case replay."""
import json, os, subprocess, sys, tempfile
from vlib import *


def cls(o):
    c = o.get("class", "?")
    if c == "stdout":
        return "stdout:" + str(o.get("kind", "?"))
    return c


def line_features(line):
    f = set()
    entered = False
    for it in line:
        t = it.get("t")
        if t in ("help", "ver", "dd", "unk", "cluster", "eq", "glued"):
            f.add(t)
        txt = it.get("txt", "")
        if "%" in txt:
            f.add("encoded_bytes")
    return sorted(f)


def signature(m):
    exp, got = m.get("expect", {}), m.get("got", {})
    sig = {"expect": cls(exp), "got": cls(got)}
    why = exp.get("why")
    if isinstance(why, dict):
        sig["why"] = why.get("k", "")
    if exp.get("class") == "stdout" and got.get("class") == "stdout" and exp.get("kind") == got.get("kind"):
        sig["detail"] = "help_path" if exp.get("kind") == "help" else "version_text"
    sig["features"] = line_features(m.get("line", []))
    return sig


def replay_file(path):
    """re-run the one case stored in a replay file against the current tree"""
    r = json.load(open(path))
    case = dict(r["case"])
    hbin = build_harness()
    d = tempfile.mkdtemp(prefix="replay-", dir=WORK)
    cpath, mpath = os.path.join(d, "case.ndjson"), os.path.join(d, "mm.ndjson")
    if "expect" not in case or case["expect"].get("class") == "see-spec":
        case.pop("expect", None)
    with open(cpath, "w") as f:
        f.write(json.dumps(case) + "\n")
    summ = run_replay(hbin, None, cpath, mpath, dump=os.path.join(d, "obs.ndjson"))
    obs = list(read_ndjson(os.path.join(d, "obs.ndjson")))
    print(json.dumps({"argv": obs[0].get("argv_bytes"), "expect": case.get("expect"), "got": obs[0]["got"]}, indent=1))
    if summ["mismatches"]:
        print(f"VIOLATION property={r['property']} replay={path}")
        return 1
    print("case conforms on the current tree")
    return 0


# ---------------------------------------------------------------- environment-backed members of choices (C18, C06)
def bad_for(it, val):
    if val in ("UNSET", None):
        return False
    if it["vt"] == "int" and val not in ("0", "1", "2", "3", "4", "5"):
        return True
    if it["vt"] == "str" and "%FF" in val:
        return True
    return bool(it["guard"]) and val == "2"



def alt_env_sig(m):
    """F18: a member of one branch is absent from the line, its variable holds a value that fails conversion or
    the guard, and the run succeeds *through another branch* (the value returned is that branch's) instead of failing"""
    s = signature(m)
    env = m.get("env") or {}
    d = m.get("def_full") or {}
    typed = {x.get("s") for x in m.get("line", [])}
    if isinstance(d, dict) and s["expect"] == "stderr" and s["got"] == "ok" and s.get("why") in ("conv", "guard"):
        for k, f in enumerate(d["named"]):
            if f["kind"] != "alt":
                continue
            badb = {b for b, br in enumerate(f["branches"]) for it in br["fields"]
                    if it["kind"] == "arg" and it["env"] and bad_for(it, env.get(it["env"])) and not (typed & set(it["shorts"] + it["longs"]))}
            try:
                val = m["got"]["value"]["t"][k]
            except Exception:
                continue
            vals = val if isinstance(val, list) else [val.get("some") if isinstance(val, dict) and "some" in val else val]
            won = {x["v"] for x in vals if isinstance(x, dict) and "v" in x}
            if badb and won and not (won & badb):
                return {"rule": "invalid_env_value_masked_by_another_alternative"}
    return s




# ---------------------------------------------------------------- F16 seen from checks it does not belong to
def is_f16(m):
    """`--help` after an item that interrupts the block of an adjacent subcommand gives the subcommand's error (F16, recorded
    for C10 and C19): other properties' checks replay such lines too and leave the verdict to those two.
    The recorded case is precise: between the name of an adjacent subcommand and the help item sits an occurrence of a
    plain option that is declared *before* the command (the enclosing level has consumed it by the time the command
    runs, so the command's window ends in front of it)."""
    d = m.get("def_full") or m.get("def") or {}
    if not isinstance(d, dict):
        return False
    e, g = m.get("expect", {}), m.get("got", {})
    if not (e.get("class") == "stdout" and e.get("kind") == "help" and g.get("class") == "stderr"):
        return False
    line = m.get("line") or []
    levels = [d] + [c["level"] for c in d.get("tail", {}).get("cmds", [])]
    for l in levels:
        named = l.get("named", [])
        for k, f in enumerate(named):
            if not (f.get("kind") == "adj" and f["head"]["kind"] == "cmd"):
                continue
            earlier = {n for g2 in named[:k] if g2.get("kind") in ("switch", "reqflag", "arg") for n in g2["shorts"] + g2["longs"]}
            # ... or of the branch of an earlier-declared choice that the level has taken (bare/optional choice: the
            # branch typed leftmost; repeated choice: every branch)
            for g2 in named[:k]:
                if g2.get("kind") != "alt":
                    continue
                bn = [{n for it in b["fields"] if it.get("kind") != "pos" for n in it["shorts"] + it["longs"]} for b in g2["branches"]]
                if g2.get("arity") in ("many", "some"):
                    earlier |= set().union(*bn)
                else:
                    first = next((i for it in line for i, ns in enumerate(bn) if it.get("s") in ns), None)
                    if first is not None:
                        earlier |= bn[first]
            names = set(f["head"]["names"])
            pos = [i for i, it in enumerate(line) if it.get("t") == "word" and it.get("s") in names]
            hp = [i for i, it in enumerate(line) if it.get("t") == "help"]
            if pos and hp and any(it.get("s") in earlier for it in line[pos[0] + 1: hp[0]]):
                return True
    return False


def not_f16(m):
    return not is_f16(m)
