"""Signatures of CmdLine mismatches (the features that make a case fail) and single-case replay."""
import json, os, subprocess, sys, tempfile
from vlib import *


def cls(o):
    c = o.get("class", "?")
    if c == "stdout":
        return "stdout:" + str(o.get("kind", "?"))
    return c


def line_features(line):
    f = set()
    entered = False
    for it in line:
        t = it.get("t")
        if t in ("help", "ver", "dd", "unk", "cluster", "eq", "glued"):
            f.add(t)
        txt = it.get("txt", "")
        if "%" in txt:
            f.add("encoded_bytes")
    return sorted(f)


def signature(m):
    exp, got = m.get("expect", {}), m.get("got", {})
    sig = {"expect": cls(exp), "got": cls(got)}
    why = exp.get("why")
    if isinstance(why, dict):
        sig["why"] = why.get("k", "")
    if exp.get("class") == "stdout" and got.get("class") == "stdout" and exp.get("kind") == got.get("kind"):
        sig["detail"] = "help_path" if exp.get("kind") == "help" else "version_text"
    sig["features"] = line_features(m.get("line", []))
    return sig


def replay_file(path):
    """re-run the one case stored in a replay file against the current tree"""
    r = json.load(open(path))
    case = dict(r["case"])
    hbin = build_harness()
    d = tempfile.mkdtemp(prefix="replay-", dir=WORK)
    cpath, mpath = os.path.join(d, "case.ndjson"), os.path.join(d, "mm.ndjson")
    if "expect" not in case or case["expect"].get("class") == "see-spec":
        case.pop("expect", None)
    with open(cpath, "w") as f:
        f.write(json.dumps(case) + "\n")
    summ = run_replay(hbin, None, cpath, mpath, dump=os.path.join(d, "obs.ndjson"))
    obs = list(read_ndjson(os.path.join(d, "obs.ndjson")))
    print(json.dumps({"argv": obs[0].get("argv_bytes"), "expect": case.get("expect"), "got": obs[0]["got"]}, indent=1))
    if summ["mismatches"]:
        print(f"VIOLATION property={r['property']} replay={path}")
        return 1
    print("case conforms on the current tree")
    return 0
