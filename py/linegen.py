"""Seeded generation of abstract command lines for the driver (beyond TLC's exhaustive bound).
A line is a list of item records with the fields CmdLine.tla's Step reads: t, s, v, txt
(+ ss, last, hasv for clusters).  Sentences are produced generatively from the definition
(occurrences per item within arity, named items interleaved freely with positionals in order,
optional `--`, then a command and its own sentence); mutations insert, delete, duplicate or
corrupt items."""
import random

GOOD_INT = ["0", "1", "3", "4", "5"]
GOOD_STR = ["x", "1", "w", "a=b", "q"]


def it_name(n):
    return {"t": "name", "s": n, "v": "", "txt": n}


def it_word(w):
    return {"t": "word", "s": w, "v": "", "txt": w}


def it_eq(n, v):
    return {"t": "eq", "s": n, "v": v, "txt": n + "=" + v}


def it_glued(n, v):
    return {"t": "glued", "s": n, "v": v, "txt": n + v}


def it_extra(x):
    return {"t": x, "s": "", "v": "", "txt": {"dd": "--", "help": "--help", "ver": "--version", "unk": "--zz"}[x]}


def it_cluster(shorts, last="", v=None):
    txt = "-" + "".join(s[1:] for s in shorts) + (last[1:] if last else "") + (v or "")
    return {"t": "cluster", "s": "", "v": v or "", "txt": txt, "ss": list(shorts), "last": last,
            "hasv": v is not None}


def value_for(rnd, vt, good=True):
    if vt == "int":
        return rnd.choice(GOOD_INT) if good else rnd.choice(["x", "w"])
    return rnd.choice(GOOD_STR)


def occurrence(rnd, it, good=True, allow_cluster=False):
    names = it["shorts"] + it["longs"]
    n = rnd.choice(names)
    if it["kind"] != "arg":
        return [it_name(n)]
    v = value_for(rnd, it["vt"], good)
    forms = ["eq"] if it.get("adj") else ["sep", "eq"]
    if n in it["shorts"] and "=" not in v and not v.startswith("-"):
        forms.append("glued")
    f = rnd.choice(forms)
    if f == "sep":
        return [it_name(n), it_word(v)]
    if f == "eq":
        return [it_eq(n, v)]
    return [it_glued(n, v)]


def count_for(rnd, arity, kind):
    if kind == "switch":
        return rnd.choice([0, 1])
    return {"one": 1, "opt": rnd.choice([0, 1]), "fallback": rnd.choice([0, 1]),
            "fallback_with": rnd.choice([0, 1]), "many": rnd.choice([0, 1, 2, 3]),
            "some": rnd.choice([1, 2, 3]), "count": rnd.choice([0, 1, 2, 3]),
            "last": rnd.choice([1, 2, 3])}[arity]


def level_segments(rnd, lvl):
    """a sentence of one level and its sub-levels as segments: each segment is a list of groups
    (kind, id, items); groups of a 'free' segment may be interleaved freely (C03), the other
    segments ('fixed': `--` and what follows it, a command name) keep their place"""
    named = []
    for it in lvl["named"]:
        if not (it["shorts"] or it["longs"]):
            continue            # an item without a name (environment only) cannot be typed
        for _ in range(count_for(rnd, it["arity"], it["kind"])):
            named.append(("named", it["id"], occurrence(rnd, it)))
    rnd.shuffle(named)
    tail = lvl["tail"]
    if tail["kind"] == "pos":
        words = []
        for p in tail["items"]:
            k = {"one": 1, "opt": rnd.choice([0, 1]), "many": rnd.choice([0, 1, 2]),
                 "some": rnd.choice([1, 2]), "last": rnd.choice([1, 2])}[p["arity"]]
            for _ in range(k):
                words.append((p, value_for(rnd, p["vt"])))
        stricts = [w for w in words if w[0]["strict"] == "strict"]
        plain = [("pos", "", [it_word(w[1])]) for w in words if w[0]["strict"] != "strict"]
        free = interleave(rnd, named, plain)
        segs = [("free", free)]
        if stricts or rnd.random() < 0.15:
            segs.append(("fixed", [("dd", "", [it_extra("dd")])] + [("data", "", [it_word(w)]) for _, w in stricts]))
        return segs
    segs = [("free", named)]
    if tail["kind"] == "cmd":
        pre = [("pos", "", [it_word(value_for(rnd, p["vt"]))]) for p in tail.get("pre_pos", [])]
        if pre:
            segs = [("free", interleave(rnd, named, pre))]
        if tail["optional"] and rnd.random() < 0.3:
            return segs
        c = rnd.choice(tail["cmds"])
        segs.append(("fixed", [("cmd", "", [it_word(rnd.choice(c["names"] + c["shorts"]))])]))
        segs += level_segments(rnd, c["level"])
    return segs


def interleave(rnd, a, b):
    """random merge keeping the order inside a and inside b"""
    out, a, b = [], list(a), list(b)
    while a or b:
        if a and (not b or rnd.random() < len(a) / (len(a) + len(b))):
            out.append(a.pop(0))
        else:
            out.append(b.pop(0))
    return out


def flatten(segs):
    return [i for _, groups in segs for _, _, items in groups for i in items]


def level_sentence(rnd, lvl):
    return flatten(level_segments(rnd, lvl))


def permute_segments(rnd, segs):
    """another order of the same sentence allowed by C03: inside every free segment the groups are
    re-interleaved keeping the relative order of groups feeding the same field and of positionals"""
    out = []
    for kind, groups in segs:
        if kind != "free":
            out.append((kind, groups))
            continue
        by = {}
        for g in groups:
            by.setdefault((g[0], g[1]), []).append(g)
        order = [(g[0], g[1]) for g in groups]
        rnd.shuffle(order)
        out.append((kind, [by[k].pop(0) for k in order]))
    return out


def all_items(d):
    """a small pool of items over the definition's alphabet, for insertions"""
    import defs as D
    pool = [it_extra("unk"), it_extra("dd"), it_word("x"), it_word("1"), it_word("w")]
    for l in D.all_levels(d):
        for it in l["named"]:
            for n in it["shorts"] + it["longs"]:
                pool.append(it_name(n))
                if it["kind"] == "arg":
                    pool.append(it_eq(n, "1"))
                    pool.append(it_eq(n, "x"))
        if l["tail"]["kind"] == "cmd":
            for c in l["tail"]["cmds"]:
                pool.append(it_word(c["names"][0]))
    return pool


def random_line(rnd, d, maxlen=8, mutate=0.5, extras=("help",)):
    line = level_sentence(rnd, d)
    if rnd.random() < mutate:
        pool = all_items(d) + [it_extra(x) for x in extras if x in d["alpha"]["extras"]]
        for _ in range(rnd.choice([1, 1, 2])):
            op = rnd.choice(["ins", "del", "dup", "corrupt"])
            if op == "ins" or not line:
                line.insert(rnd.randint(0, len(line)), dict(rnd.choice(pool)))
            elif op == "del":
                line.pop(rnd.randrange(len(line)))
            elif op == "dup":
                k = rnd.randrange(len(line))
                line.insert(rnd.randint(0, len(line)), dict(line[k]))
            else:
                k = rnd.randrange(len(line))
                if line[k]["t"] in ("eq", "glued"):
                    line[k] = dict(line[k], v="x", txt=line[k]["s"] + ("=" if line[k]["t"] == "eq" else "") + "x")
                elif line[k]["t"] == "word":
                    line[k] = it_word("x")
    return line[: max(maxlen, 1) * 2]


def random_env(rnd, d):
    import defs as D
    env = {}
    for l in D.all_levels(d):
        for it in l["named"]:
            if it.get("env"):
                env[it["env"]] = rnd.choice(d["alpha"]["envvals"])
            if it.get("env2"):
                env[it["env2"]] = rnd.choice(d["alpha"]["envvals"])
    return env


# ---------------------------------------------------------------- lines for the GroupLine engine
def leaf_occ(rnd, it, good=True):
    return occurrence(rnd, it, good)


def group_sentence(rnd, d):
    groups = []
    for f in d["named"]:
        k = f["kind"]
        if k in ("switch", "reqflag", "arg"):
            for _ in range(count_for(rnd, f["arity"], f["kind"])):
                groups.append(leaf_occ(rnd, f))
        elif k == "alt":
            n = {"one": 1, "opt": rnd.choice([0, 1]), "many": rnd.choice([0, 1, 2, 3]), "some": rnd.choice([1, 2, 3]),
                 "count": rnd.choice([0, 1, 2, 3]), "fallback": rnd.choice([0, 1]), "fallback_with": rnd.choice([0, 1])}[f["arity"]]
            for _ in range(n):
                br = rnd.choice(f["branches"])
                items = []
                leaves = list(br["fields"])
                rnd.shuffle(leaves)
                for it in leaves:
                    if it["kind"] == "pos":
                        items.append(it_word(value_for(rnd, it["vt"])))
                        continue
                    if it["kind"] == "switch" or it["arity"] == "opt":
                        if rnd.random() < 0.5:
                            continue
                    items += leaf_occ(rnd, it)
                groups.append(items)
        else:
            n = {"one": 1, "opt": rnd.choice([0, 1]), "many": rnd.choice([0, 1, 2, 3]), "some": rnd.choice([1, 2, 3]),
                 "count": rnd.choice([0, 1, 2, 3])}[f["arity"]]
            for _ in range(n):
                if f["head"]["kind"] == "cmd":
                    items = [it_word(rnd.choice(f["head"]["names"]))]
                else:
                    items = [it_name(rnd.choice(f["head"]["shorts"] + f["head"]["longs"]))]
                named = [m for m in f["members"] if m["kind"] != "pos"]
                rnd.shuffle(named)
                for m in named:
                    if m["kind"] == "switch" and rnd.random() < 0.5:
                        continue
                    items += leaf_occ(rnd, m)
                for m in f["members"]:
                    if m["kind"] == "pos":
                        items.append(it_word(value_for(rnd, m["vt"])))
                groups.append(items)
    rnd.shuffle(groups)
    if d["tail"]["kind"] == "pos":
        words = []
        for p in d["tail"]["items"]:
            k = {"one": 1, "opt": rnd.choice([0, 1]), "many": rnd.choice([0, 1, 2]), "some": rnd.choice([1, 2])}[p["arity"]]
            words += [[it_word(value_for(rnd, p["vt"]))] for _ in range(k)]
        groups = interleave(rnd, groups, words)
    return [i for g in groups for i in g]


def group_pool(d):
    import defs as D
    pool = [it_word("1"), it_word("x")] + [it_extra(x) for x in d["alpha"]["extras"]]
    for f in d["named"]:
        for it in D.field_leaves(f):
            for n in it["shorts"] + it["longs"]:
                pool.append(it_name(n))
                if it["kind"] == "arg":
                    pool.append(it_eq(n, "1"))
    return pool


def tree_group_line(rnd, d, mutate=0.6):
    """root items, a command name, then a (possibly damaged) line of that command's own level"""
    line = []
    for it in d["named"]:
        if rnd.random() < 0.5:
            line += leaf_occ(rnd, it)
    if rnd.random() < 0.08:
        line.insert(rnd.randint(0, len(line)), it_extra(rnd.choice(["help", "unk", "dd"])))
    c = rnd.choice(d["tail"]["cmds"])
    if rnd.random() < 0.95:
        line.append(it_word(rnd.choice(c["names"])))
    return (line + group_line(rnd, c["level"], mutate))[:24]


def group_line(rnd, d, mutate=0.6):
    line = group_sentence(rnd, d)
    if rnd.random() < mutate:
        pool = group_pool(d)
        for _ in range(rnd.choice([1, 1, 2])):
            op = rnd.choice(["ins", "del", "dup", "swap"])
            if op == "ins" or not line:
                line.insert(rnd.randint(0, len(line)), dict(rnd.choice(pool)))
            elif op == "del":
                line.pop(rnd.randrange(len(line)))
            elif op == "dup":
                k = rnd.randrange(len(line))
                line.insert(rnd.randint(0, len(line)), dict(line[k]))
            elif len(line) > 1:
                k = rnd.randrange(len(line) - 1)
                line[k], line[k + 1] = line[k + 1], line[k]
    return line[:24]
