#!/usr/bin/env python3
"""Regenerates /verif/MANIFEST.json from the table below (kept in one place so it stays valid)."""
import json, os, subprocess
V = os.path.dirname(os.path.dirname(os.path.abspath(__file__)))
props = [json.loads(l) for l in open(os.path.join(V, "properties.jsonl"))]

MC = "model_checking"
CHECKS = {
 "C01": (MC, "TLC enumerates every line up to the per-definition bound over a generated family of conventional definitions (CmdLine.tla: acceptor with denotation; invariants TypeOK, Functional, AllDelivered, ExactlyOnce); every reachable state is replayed into the real parser and class+value compared; a seeded driver runs longer lines on larger definitions and TLC validates the recorded outcomes against the same specification; Sentence.tla (a declarative grammar) is checked equivalent to the acceptor on the same family.",
         "TLA+ acceptor (CmdLine.tla) model-checked with TLC; spec->impl replay of all states; impl->spec trace validation", "6 (C01)"),
 "C10": (MC, "Same specification with the help and version items in the alphabet at every position (HelpWins, HelpSticky checked by TLC); all states replayed, help identified by the command path on its usage line and version by the configured tag; driver lines with inserted help/version items validated by TLC; GroupLine.tla adds help next to and inside adjacent groups, adjacent subcommands (which command is described) and choices.",
         "TLA+ acceptor (CmdLine.tla: HelpWins/HelpSticky) model-checked with TLC; replay of all states; trace validation", "6 (C10)"),
 "C03": (MC, "SwapCommutes (exchange of two neighbouring occurrences feeding different fields leaves the outcome unchanged) is an invariant checked by TLC in every reachable state of CmdLine.tla; all lines (hence all permutations up to the bound) are replayed into the real parser; a driver compares every generated sentence with re-interleavings on the real parser and TLC validates all recorded outcomes.",
         "TLA+ invariant SwapCommutes model-checked with TLC; replay of all states; metamorphic driver + trace validation", "6 (C03)"),
 "C05": (MC, "ExactlyOnce (each typed item is stored in exactly one accumulator or the line is dead), AllDelivered and NoResurrection are checked by TLC on CmdLine.tla; every line up to the bound - every accepted line with every single insertion/duplication - is replayed and the value compared exactly; driver lines validated by TLC; the repository's own test-suite and random lines over generic parser trees beyond the acceptors are run with the hooks on and judged by the ledger protocol (LedgerTrace.tla) alone.",
         "TLA+ action property ExactlyOnce + invariants model-checked with TLC; replay of all states; trace validation", "6 (C05)"),
 "C06": (MC, "CmdLine.tla's Finish distinguishes absent from invalid per arity; TLC enumerates all lines over {valid, guard-failing, unconvertible} values under every arity and nesting; replay compares class/value and requires the message to carry the conversion or guard text whenever the specification accepts the repaired line; `catch` (the documented exception) and environment-backed members of choices are part of the model.",
         "TLA+ acceptor model-checked with TLC; replay of all states with carried-text oracle; trace validation", "6 (C06)"),
 "C08": (MC, "Command trees of depth <= 3 (aliases, optional commands, leaf positionals); ScopeAfterCommand and HelpSticky checked by TLC; all lines up to the bound replayed incl. misplacements, unknown commands, help after each name (help path compared); TreeLine.tla composes CmdLine and GroupLine (commands whose own level holds choices and adjacent groups): TScope states that the command's part of the outcome is its level run on its own on the items after the name; all lines replayed, hook events validated.",
         "TLA+ acceptor (frames per entered command) model-checked with TLC; replay of all states; trace validation", "6 (C08)"),
 "C09": (MC, "DashDash action property checked by TLC; 0..3 positionals of every strictness/arity, all lines up to the bound with `--` at every position and dash-looking data on both sides, replayed with exact values; defaulted positionals (`fallback`, `fallback_with`) of every strictness.",
         "TLA+ acceptor (posOnly, strictness in Finish) model-checked with TLC; replay of all states; trace validation", "6 (C09)"),
 "C18": (MC, "Environment states are part of the initial states of CmdLine.tla (every assignment of {unset, valid, unconvertible, guard-failing, non-UTF-8} to the declared variables); Finish consults a variable only when the item has no occurrence on the line; all (environment, line) states replayed with the process environment set accordingly, each also with an undeclared variable set; GroupLine.tla does the same for environment-backed members of the branches of a choice.",
         "TLA+ acceptor with environment in the initial states, model-checked with TLC; replay of all states; trace validation", "6 (C18)"),
 "C07": (MC, "GroupLine.tla gives choices a declarative denotation (owners; greedy leftmost rounds for repeated choices); TLC enumerates all lines up to the bound over 2..4-branch choices under bare/optional/many/some, checks AltExclusive, and every state is replayed with exact values; driver lines validated by TLC (GroupLineTrace); the same choices inside subcommands (TreeLine.tla), where the scope does not start at the first item.",
         "TLA+ acceptor GroupLine.tla (choice denotation) model-checked with TLC; replay of all states; trace validation", "6 (C07)"),
 "C19": (MC, "GroupLine.tla models adjacent groups as blocks opened by the group's first item, filled by members, closed by anything else; AdjContiguous and CutKills are checked by TLC; all lines up to the bound (blocks at every position, split, cut, `--`/help inside) are replayed with exact values; driver lines validated by TLC; the same groups and adjacent subcommands inside ordinary subcommands (TreeLine.tla); which command a help request describes; adjacent groups nested inside adjacent subcommands or choices are judged by the ledger protocol alone (blocks contiguous, scopes restored).",
         "TLA+ acceptor GroupLine.tla (block automaton) model-checked with TLC; replay of all states; trace validation", "6 (C19)"),
 "C02": (MC, "RespellStutters (every other spelling of an attached occurrence - other name, `=`, glued, detached - gives the same outcome) is an invariant checked by TLC in every state; the alphabet contains all five spellings x hostile byte values x name kinds, clusters of 2..3; all states replayed and values compared byte-exactly (bytes travel percent-encoded through TLC); the tokeniser alone is compared with Lex.tla (contract over bytes, design-checked) on every byte string up to length 4 [5] over a 9-byte alphabet through the tokens hook.",
         "TLA+ invariant RespellStutters model-checked with TLC; replay of all states with byte-exact values; trace validation", "6 (C02)"),
 "C11": ("exploration", "Process.tla states what a process around OptionParser::run() may do (spawn with a prediction, one output on the predicted stream with the predicted text, body only on success, exit 0/1); TLC checks StreamsAndStatus on the protocol; a seeded sample of the specification's cases is executed as a real process (argv through execve, four argv[0] shapes) and every run's event sequence is validated by TLC (ProcessTrace), the prediction's class being bound to what CmdLine.tla demands.",
         "TLA+ process protocol (Process.tla) model-checked; trace validation of real process runs with TLC", "6 (C11)"),
 "C20": ("translation_validation", "The specification has no feature parameter: the same specification-generated cases (CmdLine and GroupLine replay sets) are run by six builds of the harness ({}, autocomplete, autocomplete+docgen+batteries+derive, dull-color, bright-color, default) and class, value and monochrome text must be identical across builds and conform to the specification; a corpus of rendered documents (styled fragments, indented/nested/fenced code blocks, hard line breaks, non-ASCII and long first lines, each also as group header and command description) is rendered by every build and must agree, without panic.",
         "differential execution of TLC-generated cases across six feature builds, each checked against the TLA+ outcome", "6 (C20)"),
 "C14": (MC, "CmdLine.tla defines, for every viable state and partial last item, a lower bound MustOffer (visible names of the active level that extend a fresh prefix and are not already given; subcommand names that extend the typed word) and an upper bound MayOffer (visible matching names of the active or enclosing levels, completer values of the pending argument); TLC checks Must within May and enumerates every (state, partial); each request is run at revision 0 and the candidate set must lie between the bounds, the outcome being completion output; GroupLine.tla gives the same bounds for a level with choices, adjacent groups and adjacent subcommands.",
         "TLA+ bounds MustOffer/MayOffer model-checked with TLC; replay of every (state, partial) completion request", "6 (C14)"),
 "C12": (MC, "HelpModel.tla computes Listing(level) from the definition (what must be listed, what must be mentioned nowhere, which names may appear in the item lists); the help of every reachable command level of generated definitions (aliases, hidden items, usage decorations, group headers, choices, adjacent groups, duplicates across alternatives) is tokenised by the harness and TLC compares the token sets and the block order; ListingConsistent is checked on the definitions; acceptance of listed names is C01's replay.",
         "TLA+ Listing (HelpModel.tla) evaluated by TLC on tokenised real help output of every command level", "6 (C12)"),
 "C16": ("exploration", "Definitions whose texts carry roff/HTML/markdown metacharacters are rendered with render_markdown/html/manpage; per document TLC checks token coverage of every reachable level against Listing (HelpModel.tla) and accepts or rejects the lexed tag stream (pushdown over bpaf's tag vocabulary, balanced, no stray `<`) and the roff line stream (control lines are bpaf's requests, every backslash one of bpaf's escapes) with Markup.tla.",
         "TLA+ acceptors (Markup.tla pushdown / line machine, HelpModel.tla listing) validating lexed real documents", "6 (C16)"),
 "C13": ("exploration", "Wrap.tla is an acceptor of console renderings (content with whitespace removed equals the unwrapped rendering; for widths >= 40 every line fits in width+2, is preformatted, or holds a single word after its indentation/definition term); WrapDesign model-checks that the greedy wrap of every small word sequence is accepted (not vacuous, not over-strict); help and error documents of definitions with grammar-generated texts are rendered at 25 (quick) / 300 (thorough) widths and every rendering and short form is validated by TLC (the short form must equal the full form without the later paragraphs, token for token; help texts are also given as Docs of several styled / embedded fragments); a real process built with `.max_width(w)` must print exactly the Display rendering at width w.",
         "TLA+ acceptor Wrap.tla (design-checked by WrapDesign) validating lexed real renderings at many widths", "6 (C13)"),
 "C15": ("exploration", "ShellWords.tla models shell word lexing (quotes, escapes, operators, active characters), bpaf's directive templates for zsh and bash and the line protocol of fish/elvish; ShellDesign model-checks that bpaf's quoting of every short hostile string lexes back to exactly one inert word; every completion output for revisions 1/7/8/9 (with and without a name) over hostile typed words, help texts, masks, groups and completer values is lexed and judged by TLC against the candidates computed at revision 0 (directives well-formed and one per line - a line break inside a quoted word only as part of the typed word -, data words inert, each candidate and file completer exactly once); a sample of bash outputs is sourced in a sandboxed real bash with stubs and canaries.",
         "TLA+ lexer/template acceptor ShellWords.tla (design-checked) validating real completion outputs; bash sandbox with canaries", "6 (C15)"),
 "C17": ("translation_validation", "Derive.tla states the documented derive rules as a function from a type definition to the definition of the hand-written equivalent (TLC checks it is total and well-formed on the family and prints the result); a generated crate contains the #[derive(Bpaf)] types; for every type TLC enumerates all lines up to the bound for the derived definition (CmdLine/GroupLine) and the derived parser, the hand-written parser built from that definition and the specification's outcome must agree on value, failure class and help/error text.",
         "TLA+ derive rules (Derive.tla) evaluated by TLC; differential run derived vs hand-written vs TLA+ outcome on TLC-enumerated lines", "6 (C17)"),
 "C04": ("exploration", "History.tla: one OptionParser object, calls identified by operation + arguments, Answer enabled only for an allowed result class and, when the call was made before, the identical result (design-checked on a tiny universe); sessions of parse/help/completion (revisions 0/1/7/8/9, with and without a name)/markdown/html/manpage calls over generic definitions (any, pure, choices, adjacent groups and commands, hidden items, control characters) and byte-grammar argument vectors run in a watched child process (hang and exit observable), every call repeated later, each session under a fixed assignment of the variables its definition declares (help/version flags included), text vectors also handed over through the `&[&str]` and `&[String]` entry points (which must agree); TLC validates every recorded call against History.tla; an apparent hang must repeat under a longer watchdog.",
         "TLA+ history protocol (History.tla, design-checked) validating recorded sessions; child process under a watchdog", "6 (C04)"),
}
NOTE = "Bounded: exhaustive within the stated constants, sampled beyond; trusted: TLC, the JSON reader, the dynamic builder (public bpaf API only)."

def main():
    hooks = subprocess.run(["git", "-C", "/repo", "log", "--format=%h %s"], text=True, capture_output=True).stdout.splitlines()
    hook_commits = [l.split()[0] for l in hooks if l.split(" ", 1)[1].startswith("verif-hook")]
    m = {"version": 1, "setup_cmd": "bin/setup",
         "hooks": {"guard": "bpaf_verif",
                   "enable": "RUSTFLAGS --cfg bpaf_verif (set in /verif/harness/.cargo/config.toml; the harness has a path dependency on /repo)",
                   "baseline_off_cmd": "cd /repo && cargo nextest run --workspace --no-fail-fast --test-threads 8 --offline",
                   "source_commits": hook_commits, "add_only": True},
         "engines": [
             {"name": "cmdline", "path": "tla/CmdLine.tla", "serves_properties": sorted(set(CHECKS) - {"C07", "C19", "C11", "C12", "C16", "C13", "C15", "C17", "C04"}),
              "kind_free_text": "TLA+ left-to-right acceptor with denotation; TLC design/replay/trace configurations; Rust harness building real bpaf parsers from the same JSON definitions"},
             {"name": "docs", "path": "tla/HelpModel.tla", "serves_properties": ["C12", "C16"],
              "kind_free_text": "Listing model of help/documentation (HelpModel.tla) and markup acceptors (Markup.tla); the harness renders and lexes, TLC judges"},
             {"name": "wrap", "path": "tla/Wrap.tla", "serves_properties": ["C13"],
              "kind_free_text": "acceptor of wrapped console output (Wrap.tla) with a design model (WrapDesign.tla)"},
             {"name": "shell", "path": "tla/ShellWords.tla", "serves_properties": ["C15"],
              "kind_free_text": "shell word lexer and directive templates (ShellWords.tla), quoting design model (ShellDesign.tla), trace judge (ShellTrace.tla)"},
             {"name": "derive", "path": "tla/Derive.tla", "serves_properties": ["C17"],
              "kind_free_text": "derive rules as a TLA+ function; generated crate derive_cases with the derived types; differential runner"},
             {"name": "history", "path": "tla/History.tla", "serves_properties": ["C04"],
              "kind_free_text": "call-history protocol of one OptionParser (History.tla), session driver with watchdog, HistoryTrace"},
             {"name": "process", "path": "tla/Process.tla", "serves_properties": ["C11"],
              "kind_free_text": "TLA+ protocol of a process built around OptionParser::run(); ProcessTrace validates recorded runs of harness-app"},
             {"name": "groupline", "path": "tla/GroupLine.tla", "serves_properties": ["C07", "C19"],
              "kind_free_text": "TLA+ acceptor for one level with choices and adjacent groups (extends CmdLine; also used by C03 C05 C06 C10 C14 C17 C18 C20); TreeLine.tla composes it with CmdLine's command trees; TLC replay/trace configurations"}],
         "checks": [], "not_applicable": [],
         "notes": "bin/check <id> --tier quick|thorough; exit 0 held, 1 VIOLATION line, 2 infrastructure. known_findings.json lists recorded defects."}
    for p in props:
        pid = p["id"]
        if pid in CHECKS:
            lvl, text, tech, ref = CHECKS[pid]
            m["checks"].append({"property_id": pid, "quick_cmd": f"bin/check {pid} --tier quick",
                                "thorough_cmd": f"bin/check {pid} --tier thorough",
                                "evidence_file": f"/verif/evidence/{pid}.json",
                                "replay_cmd_template": f"bin/check {pid} --replay {{path}}",
                                "engine": "groupline" if pid in ("C07", "C19") else "process" if pid == "C11" else "docs" if pid in ("C12", "C16") else "wrap" if pid == "C13" else "shell" if pid == "C15" else "derive" if pid == "C17" else "history" if pid == "C04" else "cmdline",
                                "level_claimed": {"category": lvl, "text": text, "design_ref": f"DESIGN.md section {ref}"},
                                "level_note": NOTE, "technique": tech})
        else:
            m["not_applicable"].append({"property_id": pid, "reason": "no check built"})
    json.dump(m, open(os.path.join(V, "MANIFEST.json"), "w"), indent=1)
    print("checks:", [c["property_id"] for c in m["checks"]])

main()
