"""C17: a seeded family of type definitions for #[derive(Bpaf)].

Each typedef is an abstract JSON document.  From it this module writes the Rust source of a
crate containing the derived types (harness/derive_cases/src/generated.rs); TLC computes from the
same document, with the documented derive rules written in tla/Derive.tla, the definition the
hand-written combinator equivalent is built from."""
import json, random

BASES = ["String", "u32", "PathBuf"]


def chars(name):
    """identifier characters with the facts the kebab-case rule needs"""
    return [{"c": c, "lo": c.lower(), "up": c.isupper() and c.isascii()} for c in name]


FIELD_NAMES = ["a", "v", "alpha", "alpha_beta", "out_dir", "level", "x", "max_size", "dry_run", "n", "file", "jobs", "k_v",
               "type", "in", "yield"]
RAW = {"type", "in", "yield", "match", "loop"}      # keywords: written as raw identifiers (r#type); the name is the identifier without the prefix


def rn(f):
    return ("r#" + f["name"]) if f["name"] in RAW else f["name"]
VARIANT_NAMES = ["Alpha", "BetaGamma", "Run", "DryRun", "X", "Build", "ListAll", "Zed"]


def field(rnd, name, i, tid, positional_ok=False, last=False):
    ty = rnd.choice(["bool", "unit", "T", "T", "opt", "vec"])
    base = rnd.choice(BASES)
    ann = {"short": "none", "long": "none", "argument": "", "positional": False, "posmeta": "", "hide": False,
           "fallback": False, "switch": False, "env": ""}
    r = rnd.random()
    if r < 0.25:
        pass
    elif r < 0.4:
        ann["short"] = "auto"
    elif r < 0.55:
        ann["long"] = "auto"
    elif r < 0.7:
        ann["short"], ann["long"] = "auto", "auto"
    elif r < 0.8:
        ann["short"] = "pqrstu"[i % 6]
    elif r < 0.9:
        ann["long"] = f"renamed{i}"
    else:
        ann["short"], ann["long"] = "PQRSTU"[i % 6], f"both-{i}"
    if ty in ("T", "opt", "vec") and rnd.random() < 0.3:
        ann["argument"] = f"META{i}"
    if ty == "T" and base == "u32" and rnd.random() < 0.3:
        ann["fallback"] = True
    if ty == "bool" and rnd.random() < 0.2:
        ann["switch"] = True
    if rnd.random() < 0.1:
        ann["hide"] = True
    # an environment variable to fall back to, and usage-line decorations
    if ty != "unit" and rnd.random() < 0.15:
        ann["env"] = f"BPAF_VERIF_D{i}"
    r2 = rnd.random()
    if r2 < 0.1:
        ann["hide_usage"] = True
    elif r2 < 0.2:
        ann["custom_usage"] = f"CU{i}"
    # explicit annotations that override what the type alone would give (they need an explicit consumer)
    r3 = rnd.random()
    if ty == "T" and base in ("u32", "String") and not ann["fallback"] and r3 < 0.15:
        ann["guard"] = True                     # guard(fn, msg)
    elif ty == "vec" and r3 < 0.25:
        ann["arity"] = "some"                   # argument(..), some(msg)
    elif ty == "T" and not ann["fallback"] and 0.15 <= r3 < 0.25:
        ann["arity"] = "last"                   # argument(..), last
    elif ty == "opt" and base == "u32" and r3 < 0.25:
        ann["catch"] = True                     # argument(..), optional, catch
    elif ty == "unit" and r3 < 0.3:
        ty = "count"                            # req_flag(()), count on a usize field
    if ann.get("arity") or ann.get("catch"):
        ann["argument"] = ann["argument"] or f"META{i}"
    if ann["long"] != "none" and rnd.random() < 0.2:
        ann["alias"] = f"alias-{i}"             # a second long name
    if positional_ok and ty in ("T", "opt", "vec") and rnd.random() < 0.5:
        ann.update(positional=True, posmeta=rnd.choice(["", f"POS{i}"]), short="none", long="none", argument="", fallback=False, env="",
                   hide_usage=False, custom_usage="", guard=False, arity="", catch=False, alias="")
        if not last and ty != "T":
            ty = "T"
        if last and rnd.random() < 0.4:
            ann["strict"] = rnd.choice(["strict", "non_strict"])
    return {"name": name, "chars": chars(name), "ty": ty, "base": base, "ann": ann, "help": f"HELP-{tid}-{name}" if rnd.random() < 0.8 else ""}


def uniq_names(rnd, k, pool):
    # names must give distinct short/long names: pick names with distinct first letters
    out, seen = [], set()
    cand = list(pool)
    rnd.shuffle(cand)
    for n in cand:
        if n[0].lower() in seen:
            continue
        seen.add(n[0].lower())
        out.append(n)
        if len(out) == k:
            break
    return out


def struct_def(rnd, tid):
    k = rnd.randint(1, 4)
    names = uniq_names(rnd, k, FIELD_NAMES)
    fields = []
    npos = rnd.choice([0, 0, 1, 2])
    for i, n in enumerate(names):
        positional_ok = i >= len(names) - npos
        fields.append(field(rnd, n, i, tid, positional_ok, last=(i == len(names) - 1)))
    # positional fields must be at the end, named before them
    fields.sort(key=lambda f: f["ann"]["positional"])
    # only the last positional may be optional / repeated
    ps = [f for f in fields if f["ann"]["positional"]]
    for f in ps[:-1]:
        f["ty"] = "T"
    # type-level doc comment: first block = description, second = header, the rest = footer; an explicit
    # descr(..) / header(..) replaces the block it names
    nb = rnd.choice([0, 0, 1, 2, 3])
    docs = [f"DOC{j + 1}-{tid}" for j in range(nb)]
    return {"id": tid, "shape": "struct", "fields": fields, "variants": [], "version": rnd.random() < 0.3,
            "docs": docs, "descr_attr": f"XDESCR-{tid}" if rnd.random() < 0.25 else "",
            "header_attr": f"XHEADER-{tid}" if rnd.random() < 0.2 else ""}


def snake(name):
    out = ""
    for i, c in enumerate(name):
        out += ("_" if c.isupper() and i else "") + c.lower()
    return out


CMD_TYPE_NAMES = ["DryRun", "Build", "ListAll", "X", "CheckOutNow"]


def cmdstruct_def(rnd, tid, i):
    """a struct that is a subcommand by itself (`#[bpaf(command)]` without a name): the command is named after the type"""
    k = rnd.randint(0, 2)
    names = uniq_names(rnd, k, FIELD_NAMES) if k else []
    fields = [field(rnd, n, j, tid) for j, n in enumerate(names)]
    for f in fields:
        f["ann"].update(positional=False, posmeta="", hide=False)
    tname = CMD_TYPE_NAMES[i % len(CMD_TYPE_NAMES)] + str(i)
    # `command("name")` names the command explicitly; a type without fields may be written as a unit struct
    return {"id": tid, "shape": "cmdstruct", "fields": fields, "variants": [], "version": False, "tname": tname, "tchars": chars(tname),
            "help": f"HELP-{tid}-cmd" if rnd.random() < 0.7 else "", "cmdname": f"cmd-{tid.lower()}" if rnd.random() < 0.5 else "",
            "unit": not fields and rnd.random() < 0.7,
            # a usage line supplied by the program for the command
            "usage": f"Usage: custom-{tid}" if rnd.random() < 0.4 else ""}


def tuple_def(rnd, tid):
    k = rnd.randint(1, 3)
    fields = []
    for i in range(k):
        ty = "T" if i < k - 1 else rnd.choice(["T", "opt", "vec"])
        fields.append({"name": "", "chars": [], "ty": ty, "base": rnd.choice(BASES),
                       "ann": {"short": "none", "long": "none", "argument": "", "positional": False, "posmeta": "", "hide": False,
                               "fallback": False, "switch": False, "env": ""}, "help": f"HELP-{tid}-{i}" if rnd.random() < 0.7 else ""})
    return {"id": tid, "shape": "tuple", "fields": fields, "variants": [], "version": False}


def enum_def(rnd, tid, commands):
    k = rnd.randint(2, 4)
    names = uniq_names(rnd, k, VARIANT_NAMES)
    variants = []
    used = set()
    for i, n in enumerate(names):
        kind = rnd.choice(["unit", "unit", "struct"])
        fields = []
        if kind == "struct":
            vletters = {x[0].lower() for x in names}
            pool = [x for x in FIELD_NAMES if x[0] not in used and x[0] not in vletters]
            for j, fn in enumerate(uniq_names(rnd, rnd.randint(1, 2), pool)):
                used.add(fn[0])
                f = field(rnd, fn, j, f"{tid}v{i}")
                if f["ty"] in ("bool", "opt", "vec") and j == 0 and not commands:
                    f["ty"] = "T"          # the first field of an alternative is required so that the alternative has an owner
                    f["ann"]["switch"] = False
                    f["ann"].update(arity="", catch=False)
                f["ann"]["hide"] = False
                f["ann"]["hide_usage"], f["ann"]["custom_usage"] = False, ""
                f["ann"]["short"], f["ann"]["long"] = ("none", "none")
                f["ann"]["alias"] = ""
                if f["ty"] == "count":
                    f["ty"] = "unit"
                fields.append(f)
        ann = {"short": "none", "long": "none"}
        if kind == "unit" and not commands:
            r = rnd.random()
            if r < 0.2:
                ann["short"] = "auto"
            elif r < 0.35:
                ann["short"], ann["long"] = "auto", "auto"
            elif r < 0.5:
                ann["long"] = f"named-{i}"
        variants.append({"name": n, "chars": chars(n), "kind": kind, "command": commands, "fields": fields, "ann": ann,
                         "cmdname": f"c{i}-named" if commands and rnd.random() < 0.3 else "",
                         "help": f"HELP-{tid}-{n}" if rnd.random() < 0.8 else ""})
    return {"id": tid, "shape": "enum", "fields": [], "variants": variants, "version": False}


def nested_def(rnd, tid):
    """a struct that embeds another derived type (plain parser mode) through `external`"""
    names = uniq_names(rnd, rnd.randint(2, 4), FIELD_NAMES)
    k = rnd.randint(1, len(names) - 1)
    mk = lambda ns, off: [field(rnd, n, i + off, tid) for i, n in enumerate(ns)]
    outer, inner = mk(names[:k], 0), mk(names[k:], 3)      # explicit names are numbered: keep them distinct
    for f in outer + inner:
        f["ann"].update(positional=False, posmeta="", hide=False)
    return {"id": tid, "shape": "nested", "fields": outer, "variants": [], "version": False,
            "inner": {"fields": inner, "doc": f"DOC-{tid}" if rnd.random() < 0.7 else "",
                      "group_help": f"GH-{tid}" if rnd.random() < 0.6 else "",
                      # a type-level default, shown in help (`fallback(..)`, `display_fallback`)
                      "fallback": rnd.random() < 0.5}}


def family(seed, n):
    rnd = random.Random(seed)
    out = []
    for i in range(n):
        tid = f"T{i}"
        if i % 10 == 9:
            out.append(nested_def(rnd, tid))
            continue
        if i % 10 == 7:
            out.append(cmdstruct_def(rnd, tid, i))
            continue
        r = i % 6
        if r in (0, 1, 2):
            out.append(struct_def(rnd, tid))
        elif r == 3:
            out.append(tuple_def(rnd, tid))
        elif r == 4:
            out.append(enum_def(rnd, tid, commands=False))
        else:
            out.append(enum_def(rnd, tid, commands=True))
    return out


# ------------------------------------------------------------------ Rust source
def rust_ty(f):
    b = f["base"] if f["base"] != "PathBuf" else "std::path::PathBuf"
    return {"bool": "bool", "unit": "()", "count": "usize", "T": b, "opt": f"Option<{b}>", "vec": f"Vec<{b}>"}[f["ty"]]


def val_expr(f, e):
    base = {"String": "vs", "u32": "vi", "PathBuf": "vp"}[f["base"]]
    return {"bool": f"Val::Bool({e})", "unit": "Val::Unit", "count": f"Val::Count({e})", "T": f"{base}({e})",
            "opt": f"match {e} {{ Some(x) => Val::Just(Box::new({base}(x))), None => Val::Nothing }}",
            "vec": f"Val::List({e}.into_iter().map({base}).collect())"}[f["ty"]]


def field_attrs(f):
    a = f["ann"]
    items = []
    if a["positional"]:
        items.append(f'positional("{a["posmeta"]}")' if a["posmeta"] else "positional")
    if a["short"] == "auto":
        items.append("short")
    elif a["short"] != "none":
        items.append(f"short('{a['short']}')")
    if a["long"] == "auto":
        items.append("long")
    elif a["long"] != "none":
        items.append(f'long("{a["long"]}")')
    if a.get("alias"):
        items.append(f'long("{a["alias"]}")')
    if a.get("env"):
        items.append(f'env("{a["env"]}")')
    if a["switch"]:
        items.append("switch")
    if f["ty"] == "count":
        items.append("req_flag(())")
    if a["argument"]:
        items.append(f'argument("{a["argument"]}")')
    if a.get("strict"):
        # (a parse-level annotation switches the implicit optional / many off: spelled out)
        items.append(a["strict"])
        if f["ty"] in ("opt", "vec"):
            items.append("optional" if f["ty"] == "opt" else "many")
    if f["ty"] == "count":
        items.append("count")
    if a.get("arity") == "some":
        items.append(f'some("SOMEMSG-{f["sid"]}")')
    if a.get("arity") == "last":
        items.append("last")
    if a.get("catch"):
        items += ["optional", "catch"]
    if a.get("guard"):
        items.append(f'guard(guard_{f["base"].lower()}, "GUARDMSG-{f["sid"]}")')
    if a["fallback"]:
        items.append("fallback(7)")
    if a.get("hide_usage"):
        items.append("hide_usage")
    if a.get("custom_usage"):
        items.append(f'custom_usage("{a["custom_usage"]}")')
    if a["hide"]:
        items.append("hide")            # annotations apply in the order written: hidden last, as the builder does
    s = ""
    if f["help"]:
        s += f"    /// {f['help']}\n"
    if items:
        s += f"    #[bpaf({', '.join(items)})]\n"
    return s


def rust_source(tds):
    out = ["// @generated by py/gen_derive.py - do not edit", "#![allow(dead_code, unused_imports, clippy::all)]",
           "use bpaf::*;", "use bpaf_verif_harness::val::Val;", "use std::os::unix::ffi::OsStringExt;",
           "fn vs(s: String) -> Val { Val::Bytes(s.into_bytes()) }", "fn vi(i: u32) -> Val { Val::Int(i as i64) }",
           "fn vp(p: std::path::PathBuf) -> Val { Val::Bytes(p.into_os_string().into_vec()) }",
           "fn guard_u32(v: &u32) -> bool { *v != 2 }", 'fn guard_string(v: &String) -> bool { v != "2" }', ""]
    reg = []
    # the identifiers the specification gives the derived items (messages carry them)
    for td in tds:
        for f in td["fields"]:
            f["sid"] = "f" + f["name"]
        for f in td.get("inner", {}).get("fields", []):
            f["sid"] = "i" + f["name"]
        for k, v in enumerate(td["variants"]):
            for f in v["fields"]:
                f["sid"] = ("c" if v["command"] else "v") + str(k + 1) + f["name"]
    for td in tds:
        tid = td["id"]
        fn = tid.lower()
        top = "options, version" if td["version"] else "options"
        if td["shape"] == "nested":
            inn = td["inner"]
            if inn["doc"]:
                out.append(f"/// {inn['doc']}")
            out.append("#[derive(Debug, Clone, Bpaf)]")
            tattrs = ([f'group_help("{inn["group_help"]}")'] if inn["group_help"] else []) + \
                ([f"fallback({tid}Inner::dflt())", "display_fallback"] if inn.get("fallback") else [])
            if tattrs:
                out.append(f'#[bpaf({", ".join(tattrs)})]')
            out.append(f"pub struct {tid}Inner {{")
            for f in inn["fields"]:
                out.append(field_attrs(f) + f"    {rn(f)}: {rust_ty(f)},")
            out.append("}")
            if inn.get("fallback"):
                dv = lambda f: {"bool": "false", "unit": "()", "count": "0", "opt": "None", "vec": "Vec::new()",
                                "T": {"String": 'String::from("d")', "u32": "7", "PathBuf": 'std::path::PathBuf::from("d")'}[f["base"]]}[f["ty"]]
                inits = ", ".join(f"{rn(f)}: {dv(f)}" for f in inn["fields"])
                out.append(f"impl {tid}Inner {{ fn dflt() -> Self {{ {tid}Inner {{ {inits} }} }} }}")
                out.append(f'impl std::fmt::Display for {tid}Inner {{ fn fmt(&self, f: &mut std::fmt::Formatter<\'_>) -> std::fmt::Result {{ write!(f, "DFLT") }} }}')
            out.append("#[derive(Debug, Clone, Bpaf)]")
            out.append(f"#[bpaf({top})]")
            out.append(f"pub struct {tid} {{")
            for f in td["fields"]:
                out.append(field_attrs(f) + f"    {rn(f)}: {rust_ty(f)},")
            out.append(f"    #[bpaf(external({fn}_inner))]\n    inner: {tid}Inner,")
            out.append("}")
            vals = [val_expr(f, f"t.{rn(f)}") for f in td["fields"]]
            ivals = ", ".join(val_expr(f, f"t.inner.{rn(f)}") for f in inn["fields"])
            vals.append(f"Val::Tuple(vec![{ivals}])")
            out.append(f"impl From<{tid}> for Val {{ fn from(t: {tid}) -> Val {{ Val::Tuple(vec![{', '.join(vals)}]) }} }}")
        elif td["shape"] == "cmdstruct":
            if td["help"]:
                out.append(f"/// {td['help']}")
            out.append("#[derive(Debug, Clone, Bpaf)]")
            cattr = f'command("{td["cmdname"]}")' if td["cmdname"] else "command"
            out.append(f'#[bpaf({cattr}, usage("{td["usage"]}"))]' if td.get("usage") else f"#[bpaf({cattr})]")
            if td["unit"]:
                out.append(f"pub struct {td['tname']};")
            else:
                out.append(f"pub struct {td['tname']} {{")
                for f in td["fields"]:
                    out.append(field_attrs(f) + f"    {rn(f)}: {rust_ty(f)},")
                out.append("}")
            vals = ", ".join(val_expr(f, f"t.{rn(f)}") for f in td["fields"])
            out.append(f"impl From<{td['tname']}> for Val {{ fn from(t: {td['tname']}) -> Val {{ Val::Tuple(vec![Val::Variant(0, Box::new(Val::Tuple(vec![{vals}])))]) }} }}")
            reg.append(f'        "{tid}" => Box::new(|a: &[std::ffi::OsString]| {snake(td["tname"])}().to_options().run_inner(Args::from(a).set_name("app")).map(Val::from)),')
            out.append("")
            continue
        elif td["shape"] in ("struct", "tuple"):
            for j, b in enumerate(td.get("docs", [])):
                if j:
                    out += ["///", "///"]         # blocks are separated by two empty lines
                out.append(f"/// {b}")
            out.append("#[derive(Debug, Clone, Bpaf)]")
            tl = [top] + ([f'descr("{td["descr_attr"]}")'] if td.get("descr_attr") else []) + \
                ([f'header("{td["header_attr"]}")'] if td.get("header_attr") else [])
            out.append(f"#[bpaf({', '.join(tl)})]")
            if td["shape"] == "struct":
                out.append(f"pub struct {tid} {{")
                for f in td["fields"]:
                    out.append(field_attrs(f) + f"    {rn(f)}: {rust_ty(f)},")
                out.append("}")
                vals = ", ".join(val_expr(f, f"t.{rn(f)}") for f in td["fields"])
            else:
                out.append(f"pub struct {tid}(")
                for f in td["fields"]:
                    out.append(field_attrs(f) + f"    {rust_ty(f)},")
                out.append(");")
                vals = ", ".join(val_expr(f, f"t.{i}") for i, f in enumerate(td["fields"]))
            out.append(f"impl From<{tid}> for Val {{ fn from(t: {tid}) -> Val {{ Val::Tuple(vec![{vals}]) }} }}")
        else:
            out.append("#[derive(Debug, Clone, Bpaf)]")
            out.append(f"#[bpaf({top})]")
            out.append(f"pub enum {tid} {{")
            arms = []
            for k, v in enumerate(td["variants"]):
                if v["help"]:
                    out.append(f"    /// {v['help']}")
                items = []
                if v["command"]:
                    items.append(f'command("{v["cmdname"]}")' if v["cmdname"] else "command")
                if v["ann"]["short"] == "auto":
                    items.append("short")
                if v["ann"]["long"] == "auto":
                    items.append("long")
                elif v["ann"]["long"] != "none":
                    items.append(f'long("{v["ann"]["long"]}")')
                if items:
                    out.append(f"    #[bpaf({', '.join(items)})]")
                if v["kind"] == "unit":
                    out.append(f"    {v['name']},")
                    payload = "Val::Tuple(vec![])" if v["command"] else "Val::Unit"
                    arms.append(f"{tid}::{v['name']} => Val::Variant({k}, Box::new({payload}))")
                else:
                    out.append(f"    {v['name']} {{")
                    for f in v["fields"]:
                        out.append("    " + field_attrs(f).replace("\n    ", "\n        ") + f"        {rn(f)}: {rust_ty(f)},")
                    out.append("    },")
                    names = ", ".join(rn(f) for f in v["fields"])
                    vals = [val_expr(f, rn(f)) for f in v["fields"]]
                    payload = vals[0] if (len(vals) == 1 and not v["command"]) else f"Val::Tuple(vec![{', '.join(vals)}])"
                    arms.append(f"{tid}::{v['name']} {{ {names} }} => Val::Variant({k}, Box::new({payload}))")
            out.append("}")
            out.append(f"impl From<{tid}> for Val {{ fn from(t: {tid}) -> Val {{ Val::Tuple(vec![match t {{ {', '.join(arms)} }}]) }} }}")
        reg.append(f'        "{tid}" => Box::new(|a: &[std::ffi::OsString]| {fn}().run_inner(Args::from(a).set_name("app")).map(Val::from)),')
        out.append("")
    out.append("pub type Runner = Box<dyn Fn(&[std::ffi::OsString]) -> Result<Val, ParseFailure>>;")
    out.append("pub fn derived(id: &str) -> Option<Runner> {\n    Some(match id {")
    out += reg
    out.append("        _ => return None,\n    })\n}")
    return "\n".join(out) + "\n"
