CONSTANT Defs <- MCDefs
SPECIFICATION TSpec
INVARIANTS TTypeOK TSandwich TCEmit
CHECK_DEADLOCK FALSE
