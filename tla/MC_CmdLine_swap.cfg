CONSTANT Defs <- MCDefs
SPECIFICATION Spec
INVARIANTS TypeOK SwapCommutes
CHECK_DEADLOCK FALSE
