----------------------------- MODULE WrapDesign -----------------------------
(* design check of the Wrap acceptor: for every sequence of <= 4 words of length 1..5, every margin  *)
(* in {0,2,4} and every width 1..12 the greedy wrap consists of lines the acceptor admits, puts every *)
(* word on exactly one line in order, and a line longer than the width holds a single word            *)
EXTENDS Wrap
VARIABLES ws, wd, m
WordSeqs == UNION {[1..n -> 1..5] : n \in 0..4}
DInit == ws \in WordSeqs /\ wd \in 1..12 /\ m \in {0, 2, 4} /\ l = 0 /\ bad = 0
DNext == UNCHANGED <<ws, wd, m, l, bad>>
Lines == Greedy(ws, wd, m, <<>>, <<>>)
RECURSIVE Flat(_)
Flat(ls) == IF ls = <<>> THEN <<>> ELSE [i \in DOMAIN Head(ls).toks |-> Head(ls).toks[i].w] \o Flat(Tail(ls))
GreedyAccepted == /\ \A i \in DOMAIN Lines : WidthOK(Lines[i], wd)
                  /\ Flat(Lines) = ws
                  /\ \A i \in DOMAIN Lines : LineLen(Lines[i]) > wd => Len(Lines[i].toks) = 1
=============================================================================
