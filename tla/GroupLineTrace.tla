--------------------------- MODULE GroupLineTrace ---------------------------
(* impl -> spec for the GroupLine engine: every recorded run (definition, line, observed outcome) *)
(* must be the outcome GroupLine assigns to that line; every record is judged.                    *)
EXTENDS GroupLine, Json, IOUtils
Rec    == ndJsonDeserialize(IOEnv.TRACE)
DefSeq == ndJsonDeserialize(IOEnv.DEFS)
DefById(id) == DefSeq[CHOOSE k \in DOMAIN DefSeq : DefSeq[k].id = id]
VARIABLES l, bad
tvars == <<def, env, line, st, l, bad>>
Conforms(exp, got) ==
  /\ exp.class = got.class
  /\ exp.class = "ok" => ToJson(exp.value) = got.vjson
  /\ exp.class = "stdout" => (exp.kind = got.kind /\ (exp.kind = "help" => ToJson(exp.path) = got.pjson))
TInit == /\ l = 1 /\ bad = 0 /\ def = DefSeq[1] /\ env = <<>> /\ line = <<>> /\ st = GInitSt(DefSeq[1])
TNext == /\ l <= Len(Rec)
         /\ LET r == Rec[l]  d == DefById(r.def)  s == GRun(d, GInitSt(d), r.line)  o == GOutcome(d, s, r.env) IN
            /\ def' = d /\ env' = r.env /\ line' = r.line /\ st' = s
            /\ IF Conforms(o, r.got) THEN bad' = bad
               ELSE /\ PrintT(<<"REJECT", l, ToJson(o)>>) /\ bad' = bad + 1
         /\ l' = l + 1
AllConsumed == IF TLCGet("stats").diameter - 1 = Len(Rec) THEN TRUE
            ELSE Print(<<"INCOMPLETE", TLCGet("stats").diameter, Len(Rec)>>, FALSE)
TOutOK == GOutcome(def, st, env).class \in {"ok", "stderr", "stdout"}
TExclusive == AltExclusive
=============================================================================
