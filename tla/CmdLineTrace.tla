---------------------------- MODULE CmdLineTrace ----------------------------
(* impl -> spec: each record of the trace is one real run of the parser       *)
(* (definition, line typed, environment, observed outcome).  The trace is     *)
(* accepted iff for every record the observed outcome is the outcome the      *)
(* specification assigns to that line.  Every record is judged (a rejected    *)
(* record is reported and validation goes on), and the invariants of CmdLine  *)
(* are evaluated in every state the recorded lines reach.                     *)
EXTENDS CmdLine, Json, IOUtils
Rec    == ndJsonDeserialize(IOEnv.TRACE)
DefSeq == ndJsonDeserialize(IOEnv.DEFS)
DefById(id) == DefSeq[CHOOSE k \in DOMAIN DefSeq : DefSeq[k].id = id]
VARIABLES l, bad
tvars == <<def, env, line, st, l, bad>>

\* only what the specification states is compared: class, value, kind of stdout, help path, version tag
Conforms(exp, got) ==
  /\ exp.class = got.class
  \* got.vjson / got.pjson: canonical JSON text (sorted keys, no blanks) written by the trace recorder;
  \* comparing texts avoids TLC's refusal to compare values of different types
  /\ exp.class = "ok" => ToJson(exp.value) = got.vjson
  /\ exp.class = "stdout" =>
       /\ exp.kind = got.kind
       /\ exp.kind = "help" => ToJson(exp.path) = got.pjson
       /\ exp.kind = "version" => got.vtext = "Version: VER-" \o exp.vtag

TInit == /\ l = 1 /\ bad = 0 /\ def = DefSeq[1] /\ env = [x \in EnvVars(DefSeq[1]) |-> "UNSET"] /\ line = <<>> /\ st = InitSt(DefSeq[1])
\* a completion request recorded after the line: the candidates must lie between the bounds (C14)
CompConforms(s, r) ==
  LET cands == {r.cands[i] : i \in DOMAIN r.cands} IN
  ~Viable(s) \/ (r.p.k = "short" /\ Foreign(s, r.p.s))
  \/ (r.class = "completion" /\ MustOffer(s, r.p) \subseteq cands /\ cands \subseteq MayOffer(s, r.p))
TNext == /\ l <= Len(Rec)
         /\ LET r == Rec[l]  d == DefById(r.def)  s == Run(InitSt(d), r.line)  o == Outcome(s, r.env) IN
            /\ def' = d /\ env' = r.env /\ line' = r.line /\ st' = s
            /\ IF r.kind = "complete"
               THEN IF CompConforms(s, r) THEN bad' = bad
                    ELSE /\ PrintT(<<"REJECT", l, ToJson([must |-> MustOffer(s, r.p), may |-> MayOffer(s, r.p),
                                                           acmds |-> LET t == Cur(s).lvl.tail IN
                                                                     IF t.kind = "cmd" THEN [k \in DOMAIN t.cmds |-> [n |-> t.cmds[k].names[1], w |-> CmdWords(t.cmds[k])]]
                                                                     ELSE <<>>])>>) /\ bad' = bad + 1
               ELSE IF s.outside \/ Conforms(o, r.got) THEN bad' = bad
               ELSE /\ PrintT(<<"REJECT", l, ToJson(o)>>) /\ bad' = bad + 1
         /\ l' = l + 1
TSpec == TInit /\ [][TNext]_tvars
\* every record was consumed (an evaluation error would stop short)
Complete == IF TLCGet("stats").diameter - 1 = Len(Rec) THEN TRUE
            ELSE Print(<<"INCOMPLETE", TLCGet("stats").diameter, Len(Rec)>>, FALSE)
TOutOK == Outcome(st, env).class \in {"ok", "stderr", "stdout"}
THelpWins == (st.helpAt.set /\ ~st.ambig) => Outcome(st, env).class = "stdout"
TDelivered == Outcome(st, env).class = "ok" => st.dead = "" /\ st.pending = ""
=============================================================================
