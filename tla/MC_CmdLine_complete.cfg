CONSTANT Defs <- MCDefs
SPECIFICATION Spec
INVARIANTS TypeOK CompletionSandwich CEmit
CHECK_DEADLOCK FALSE
