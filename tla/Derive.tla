------------------------------- MODULE Derive -------------------------------
(***************************************************************************)
(* C17 - the documented rules of #[derive(Bpaf)] as a function from a type *)
(* definition to the definition of the hand-written combinator equivalent  *)
(* (the same JSON shape the harness builds parsers from and CmdLine /      *)
(* GroupLine give a meaning to).                                           *)
(*   field name  -> long name in kebab-case; a one-character name -> short *)
(*   `short` / `long` without a value -> first character / whole kebab name*)
(*   `short('c')` / `long("n")`      -> exactly that                       *)
(*   bool -> switch, () -> required flag, T -> required argument,          *)
(*   Option<T> -> optional argument, Vec<T> -> repeated argument           *)
(*   `positional` or an unnamed field -> positional item, in order         *)
(*   `argument("M")` / `positional("M")` -> metavariable, default "ARG"    *)
(*   doc comment -> help; hide, fallback, switch as annotated              *)
(*   a field name written as a raw identifier (r#type) loses the prefix    *)
(*   a nested type: doc comment -> header of the group, attached before    *)
(*   the type-level `fallback(..)` / `display_fallback`                    *)
(*   enum -> choice between its variants: unit variant -> required flag    *)
(*   named `--kebab-variant` (short/long annotations as for fields),       *)
(*   struct variant -> group of its fields, `command` variants ->          *)
(*   subcommands named after the variant.                                  *)
(***************************************************************************)
EXTENDS Naturals, Sequences, FiniteSets, TLC, Json, IOUtils

RangeOf(s) == {s[i] : i \in DOMAIN s}
RECURSIVE KebabR(_, _)
KebabR(cs, first) ==
  IF cs = <<>> THEN ""
  ELSE LET h == Head(cs) IN
       (IF h.up THEN (IF first THEN "" ELSE "-") \o h.lo
        ELSE IF h.c \in {"_", "-"} THEN "-" ELSE h.c) \o KebabR(Tail(cs), FALSE)
Kebab(cs) == KebabR(cs, TRUE)
\* first character of the kebab-case form (what a bare `short` annotation picks)
KebabFirst(cs) == LET h == Head(cs) IN IF h.up THEN h.lo ELSE IF h.c \in {"_", "-"} THEN "-" ELSE h.c

Vt(base) == CASE base = "u32" -> "int" [] base = "PathBuf" -> "path" [] OTHER -> "str"

\* names of a field or variant; implicit: defaultLong says whether the implicit name is always long (variants)
Names(chars, ann, alwaysLong) ==
  IF ann.short = "none" /\ ann.long = "none"
  THEN IF Len(chars) = 1 /\ ~alwaysLong
       THEN [shorts |-> <<"-" \o KebabFirst(chars)>>, longs |-> <<>>]
       ELSE [shorts |-> <<>>, longs |-> <<"--" \o Kebab(chars)>>]
  ELSE [shorts |-> IF ann.short = "none" THEN <<>>
                   ELSE IF ann.short = "auto" THEN <<"-" \o KebabFirst(chars)>> ELSE <<"-" \o ann.short>>,
        longs  |-> (IF ann.long = "none" THEN <<>>
                    ELSE IF ann.long = "auto" THEN <<"--" \o Kebab(chars)>> ELSE <<"--" \o ann.long>>)
                   \* a second `long(..)` is an alias
                   \o (IF "alias" \in DOMAIN ann /\ ann.alias # "" THEN <<"--" \o ann.alias>> ELSE <<>>)]

Letters(shorts) == [i \in DOMAIN shorts |-> "?"]      \* not used by the families of this property

\* an annotation that older type definitions may lack
Ann(f, k, dflt) == IF k \in DOMAIN f.ann THEN f.ann[k] ELSE dflt
Leaf(id, kind, arity, vt, nm, f, metavar) ==
  [id |-> id, kind |-> kind, arity |-> arity, vt |-> vt, shorts |-> nm.shorts, longs |-> nm.longs,
   letters |-> Letters(nm.shorts), env |-> Ann(f, "env", ""), adj |-> FALSE, guard |-> Ann(f, "guard", FALSE) = TRUE, hidden |-> f.ann.hide,
   help |-> f.help, catch |-> Ann(f, "catch", FALSE) = TRUE, lchars |-> <<>>, completer |-> <<>>, metavar |-> metavar,
   hide_usage |-> Ann(f, "hide_usage", FALSE), custom_usage |-> Ann(f, "custom_usage", "")]

\* a named field
NamedField(f, id) ==
  LET nm == Names(f.chars, f.ann, FALSE)
      mv == IF f.ann.argument = "" THEN "ARG" ELSE f.ann.argument IN
  CASE f.ty = "bool" -> Leaf(id, "switch", "sw", "none", nm, f, mv)
    [] f.ty = "unit" -> Leaf(id, "reqflag", "one", "none", nm, f, mv)
    \* explicit annotations override exactly what they name: `some(..)` on a Vec, `last` on a plain field,
    \* `req_flag(()), count` on a usize field, `optional, catch`, `guard(..)`
    [] f.ty = "count" -> Leaf(id, "reqflag", "count", "none", nm, f, mv)
    [] f.ty = "T"    -> Leaf(id, "arg", IF f.ann.fallback THEN "fallback" ELSE IF Ann(f, "arity", "") = "last" THEN "last" ELSE "one",
                             Vt(f.base), nm, f, mv)
    [] f.ty = "opt"  -> Leaf(id, "arg", "opt", Vt(f.base), nm, f, mv)
    [] f.ty = "vec"  -> Leaf(id, "arg", IF Ann(f, "arity", "") = "some" THEN "some" ELSE "many", Vt(f.base), nm, f, mv)

PosField(f, id) ==
  [id |-> id, kind |-> "pos", arity |-> (CASE f.ty = "opt" -> "opt" [] f.ty = "vec" -> "many" [] OTHER -> "one"),
   strict |-> (IF Ann(f, "strict", "") = "" THEN "any" ELSE f.ann.strict), vt |-> Vt(f.base), help |-> f.help,
   metavar |-> IF f.ann.posmeta = "" THEN "ARG" ELSE f.ann.posmeta, hidden |-> f.ann.hide]

IsPos(td, f) == td.shape = "tuple" \/ f.ann.positional
FieldSeq(td, fs, prefix) ==
  LET named == SelectSeq(fs, LAMBDA f : ~IsPos(td, f))
      posit == SelectSeq(fs, LAMBDA f : IsPos(td, f)) IN
  [named |-> [i \in DOMAIN named |-> NamedField(named[i], prefix \o named[i].name)],
   pos   |-> [i \in DOMAIN posit |-> PosField(posit[i], prefix \o "p" \o ToString(i))]]

LevelOf(named, tail, version, descr) ==
  [named |-> named, tail |-> tail, version |-> version, vtag |-> "d", ftu |-> FALSE,
   version_text |-> "0.0.7", descr |-> descr, help_names |-> <<"-h", "--help">>, ver_names |-> <<"-V", "--version">>]
\* the blocks of a type-level doc comment: description, header, footer (the rest); an explicit descr(..) or header(..)
\* replaces the block it names
WithDocs(lvl, td) ==
  LET docs == IF "docs" \in DOMAIN td THEN td.docs ELSE <<>>
      Blk(n) == IF Len(docs) >= n THEN docs[n] ELSE ""
      da == IF "descr_attr" \in DOMAIN td THEN td.descr_attr ELSE ""
      ha == IF "header_attr" \in DOMAIN td THEN td.header_attr ELSE "" IN
  [lvl EXCEPT !.descr = IF da # "" THEN da ELSE Blk(1)] @@
  [header |-> IF ha # "" THEN ha ELSE Blk(2), footer |-> Blk(3)]
TailOf(pos) == IF pos = <<>> THEN [kind |-> "none"] ELSE [kind |-> "pos", items |-> pos]

VariantLeaf(v, id) ==
  Leaf(id, "reqflag", "one", "none", Names(v.chars, v.ann, TRUE),
       [ann |-> [hide |-> FALSE], help |-> v.help], "ARG")

Derive(td) ==
  IF td.shape = "nested"
  THEN \* a type derived in plain parser mode is a group of its fields; its doc comment is the group's
       \* header unless an explicit group_help annotation names one
       LET o == FieldSeq(td, td.fields, "f")  n == FieldSeq(td, td.inner.fields, "i")
           gh == IF td.inner.group_help # "" THEN td.inner.group_help ELSE td.inner.doc IN
       LevelOf(o.named \o <<[kind |-> "seq", id |-> "inner", arity |-> IF td.inner.fallback THEN "fallback_group" ELSE "one",
                              fields |-> n.named, group_help |-> gh,
                              hidden |-> FALSE, guard |-> FALSE, catch |-> FALSE, help |-> ""]>>,
               [kind |-> "none"], td.version, "")
  ELSE IF td.shape \in {"struct", "tuple"}
  THEN LET fs == FieldSeq(td, td.fields, "f") IN WithDocs(LevelOf(fs.named, TailOf(fs.pos), td.version, ""), td)
  ELSE IF td.shape = "cmdstruct"
  THEN \* a type that is a subcommand by itself: the command is named after the type, in kebab-case, unless
       \* `command("name")` names it
       LET fs == FieldSeq(td, td.fields, "f") IN
       LevelOf(<<>>, [kind |-> "cmd", optional |-> FALSE, else_pos |-> <<>>,
                      cmds |-> <<[names |-> <<IF td.cmdname # "" THEN td.cmdname ELSE Kebab(td.tchars)>>, shorts |-> <<>>, adjacent |-> FALSE, help |-> td.help,
                                  nchars |-> <<>>,
                                  \* (`usage(..)` next to `command`: the usage line of the command's own help)
                                  level |-> LevelOf(fs.named, TailOf(fs.pos), FALSE, td.help)
                                            @@ (IF "usage" \in DOMAIN td /\ td.usage # "" THEN [usage |-> td.usage] ELSE <<>>)]>>],
               FALSE, "")
  ELSE IF \A k \in DOMAIN td.variants : td.variants[k].command
  THEN \* every variant is a subcommand named after it; its fields form the subcommand's own parser
       LevelOf(<<>>,
               [kind |-> "cmd", optional |-> FALSE, else_pos |-> <<>>,
                cmds |-> [k \in DOMAIN td.variants |->
                            LET v == td.variants[k]  fs == FieldSeq(td, v.fields, "c" \o ToString(k)) IN
                            [names |-> <<IF v.cmdname # "" THEN v.cmdname ELSE Kebab(v.chars)>>, shorts |-> <<>>, adjacent |-> FALSE, help |-> v.help,
                             nchars |-> <<>>, level |-> LevelOf(fs.named, TailOf(fs.pos), FALSE, v.help)]]],
               td.version, "")
  ELSE \* a choice: unit variants are required flags, struct variants groups of their fields
       LevelOf(<<[kind |-> "alt", id |-> "g0", arity |-> "one", help |-> "", hidden |-> FALSE, guard |-> FALSE, catch |-> FALSE,
                  branches |-> [k \in DOMAIN td.variants |->
                     LET v == td.variants[k] IN
                     [kind |-> "branch",
                      fields |-> IF v.kind = "unit" THEN <<VariantLeaf(v, "v" \o ToString(k))>>
                                 ELSE FieldSeq(td, v.fields, "v" \o ToString(k)).named]]]>>,
               [kind |-> "none"], td.version, "")

(* ------------------------------------------------------------------ the family and its design properties *)
TypeDefs == ndJsonDeserialize(IOEnv.TYPEDEFS)

AllNamed(lvl) == UNION {IF lvl.named[k].kind = "alt"
                        THEN UNION {RangeOf(lvl.named[k].branches[b].fields) : b \in DOMAIN lvl.named[k].branches}
                        ELSE IF lvl.named[k].kind = "seq" THEN RangeOf(lvl.named[k].fields)
                        ELSE {lvl.named[k]} : k \in DOMAIN lvl.named}
LeafNames(lvl) == UNION {RangeOf(it.shorts) \cup RangeOf(it.longs) : it \in AllNamed(lvl)}
\* documented precondition of a well formed parser: every named item has a name and names are unique in a level
WellFormed(lvl) ==
  /\ \A it \in AllNamed(lvl) : it.shorts # <<>> \/ it.longs # <<>>
  /\ \A a, b \in AllNamed(lvl) : a.id # b.id =>
        (RangeOf(a.shorts) \cup RangeOf(a.longs)) \cap (RangeOf(b.shorts) \cup RangeOf(b.longs)) = {}
VARIABLE i
Init == i = 1
Next == i <= Len(TypeDefs) /\ i' = i + 1
DeriveTotal == i <= Len(TypeDefs) =>
                 LET d == Derive(TypeDefs[i]) IN
                 /\ WellFormed(d)
                 /\ (d.tail.kind = "cmd" => \A k \in DOMAIN d.tail.cmds : WellFormed(d.tail.cmds[k].level))
                 /\ PrintT(<<"DERIVED", ToJson([id |-> TypeDefs[i].id] @@ d)>>)
=============================================================================
