------------------------------ MODULE HelpModel ------------------------------
(***************************************************************************)
(* C12 / C16 - what the help of one command level (and the generated       *)
(* documentation of that level) must and must not mention.                 *)
(* Listing(lvl) is computed from the definition alone; the harness turns a *)
(* rendered text into tokens (layout-independent: names, metavariables and *)
(* help texts are unique tokens) and TLC compares token sets.              *)
(***************************************************************************)
EXTENDS GroupLine, Json, IOUtils, Usage

LeavesOf(lvl)   == UNION {FieldLeaves(lvl.named[k]) : k \in DOMAIN lvl.named}
PosItemsOf(lvl) == (IF lvl.tail.kind = "pos" THEN RangeOf(lvl.tail.items)
                    ELSE IF lvl.tail.kind = "cmd" THEN RangeOf(lvl.tail.else_pos) \cup RangeOf(PrePos(lvl)) ELSE {})
                   \cup UNION {IF lvl.named[k].kind = "adj" THEN RangeOf(PosMembers(lvl.named[k])) ELSE {} : k \in DOMAIN lvl.named}
                   \* a positional item that is one branch of a choice
                   \cup UNION {IF lvl.named[k].kind = "alt"
                               THEN UNION {{x \in RangeOf(lvl.named[k].branches[b].fields) : x.kind = "pos"} : b \in DOMAIN lvl.named[k].branches}
                               ELSE {} : k \in DOMAIN lvl.named}
Hidden(x)       == x.hidden
FirstNames(it)  == (IF it.shorts # <<>> THEN {it.shorts[1]} ELSE {}) \cup (IF it.longs # <<>> THEN {it.longs[1]} ELSE {})
AliasNames(it)  == NamesOf(it) \ FirstNames(it)
\* `display_fallback` (the harness' values display as DFLT), `debug_fallback` (the Debug form names the variant),
\* `format_fallback` (a formatter that writes FMT-<id>)
DefaultShown(it) ==
  IF "show_default" \notin DOMAIN it \/ it.arity \notin {"fallback", "fallback_with"} THEN {}
  ELSE CASE it.show_default = "display" -> {"DFLT"}
         [] it.show_default = "debug"   -> {IF it.vt = "int" THEN "Int" ELSE "Bytes"}
         [] it.show_default = "format"  -> {"FMT-" \o it.id}
         [] OTHER -> {}
\* what the user can pass at this level and must therefore be listed
\* an item without a help text of its own: a named one is listed by its names alone, a positional one is not listed
HelpTok(it) == IF it.help # "" THEN {it.help} ELSE {}
MustList(lvl) ==
  UNION {FirstNames(it) \cup HelpTok(it) \cup (IF it.kind = "arg" THEN {it.metavar} ELSE {})
         \cup (IF it.env # "" THEN {it.env} ELSE {})          \* the variable an item falls back to is shown with it
         \cup DefaultShown(it)                                \* and so is a default the program asked to show
         : it \in {x \in LeavesOf(lvl) : ~Hidden(x)}}
  \cup UNION {{p.metavar, p.help} : p \in {x \in PosItemsOf(lvl) : x.help # ""}}
  \* a command is listed with its help text or, lacking one, with the whole first line of its description
  \cup UNION {{c.names[1]} \cup (IF c.help # "" THEN {c.help} ELSE IF "listed" \in DOMAIN c THEN RangeOf(c.listed) ELSE {})
              : c \in VisibleCmds(lvl)}
  \cup RangeOf(lvl.help_names) \cup (IF lvl.version THEN RangeOf(lvl.ver_names) ELSE {})
\* what must appear nowhere in the text
MustNotMention(lvl) ==
  UNION {NamesOf(it) \cup {it.help} \cup (IF it.env # "" THEN {it.env} ELSE {})
         \cup (IF "show_default" \in DOMAIN it /\ it.show_default = "format" THEN {"FMT-" \o it.id} ELSE {})
         : it \in {x \in LeavesOf(lvl) : Hidden(x)}}
  \cup UNION {AliasNames(it) : it \in {x \in LeavesOf(lvl) : ~Hidden(x)}}
  \cup UNION {RangeOf(Tail(c.names)) : c \in VisibleCmds(lvl)}
  \cup UNION {RangeOf(c.names) \cup (IF c.help # "" THEN {c.help} ELSE {}) : c \in LevelCmds(lvl) \ VisibleCmds(lvl)}
\* ---- sections: under which heading an item is listed.  An item under a header of its own (`group_help` on the item
\* or on the field - choice, group - it belongs to, or the header a level gives its commands together with the option
\* declared before them) is listed under that header; every other option under "Available options", positional under
\* "Available positional items", command under "Available commands".  A heading is identified by one token.
GHead(x) == IF "gh_words" \in DOMAIN x THEN x.gh_words[1] ELSE x.group_help
HasGH(x) == "group_help" \in DOMAIN x /\ x.group_help # ""
CmdGroup(lvl) == lvl.tail.kind = "cmd" /\ "grouped" \in DOMAIN lvl.tail /\ lvl.tail.grouped # "" /\ lvl.named # <<>>
\* pairs <<token, heading token>>
SectionPairs(lvl) ==
  UNION {LET f == lvl.named[k]
             \* (the header shared with the commands wins over the field's own)
             own == IF CmdGroup(lvl) /\ k = Len(lvl.named) THEN lvl.tail.grouped
                    ELSE IF HasGH(f) THEN GHead(f) ELSE "" IN
         UNION {{<<n, IF HasGH(it) /\ ~IsLeaf(f) THEN GHead(it) ELSE IF own # "" THEN own
                       ELSE IF it.kind = "pos" THEN "positional" ELSE "options">> : n \in FirstNames(it) \cup (IF it.kind = "pos" THEN {it.metavar} ELSE {})}
                : it \in {x \in FieldLeaves(f) : ~Hidden(x) /\ ~(x.kind = "pos" /\ x.help = "")}}
         : k \in {k \in DOMAIN lvl.named : ~("hidden" \in DOMAIN lvl.named[k] /\ lvl.named[k].hidden)}}
  \cup (IF lvl.tail.kind = "pos"
        THEN {<<p.metavar, IF HasGH(p) THEN GHead(p) ELSE "positional">> : p \in {x \in RangeOf(lvl.tail.items) : ~Hidden(x) /\ x.help # ""}}
        ELSE {})
  \cup {<<c.names[1], IF CmdGroup(lvl) THEN lvl.tail.grouped ELSE "commands">> : c \in VisibleCmds(lvl)}
\* r.sections : sequence of [head : tokens of the heading line, items : tokens of the item lines below it]
Misplaced(lvl, r) ==
  {p \in SectionPairs(lvl) : ~\E i \in DOMAIN r.sections : p[2] \in RangeOf(r.sections[i].head) /\ p[1] \in RangeOf(r.sections[i].items)}
\* name-like tokens allowed in the item lists
MayList(lvl) == MustList(lvl) \cup UNION {RangeOf(c.shorts) : c \in VisibleCmds(lvl)}

RECURSIVE LevelAt(_, _)
LevelAt(lvl, path) == IF path = <<>> THEN lvl
                      ELSE LET c == CHOOSE c \in LevelCmds(lvl) : c.names[1] = Head(path) IN LevelAt(c.level, Tail(path))
RECURSIVE AllPaths(_)
AllPaths(lvl) == {<<>>} \cup UNION {{<<c.names[1]>> \o p : p \in AllPaths(c.level)} : c \in LevelCmds(lvl)}

RECURSIVE VisiblePaths(_)
VisiblePaths(lvl) == {<<>>} \cup UNION {{<<c.names[1]>> \o p : p \in VisiblePaths(c.level)} : c \in VisibleCmds(lvl)}
\* ---- trace: one record per rendered level
\* [def, path, kind \in {"help","markdown","html","manpage"}, items : tokens of the item lines,
\*  all : every token of the text, order : [descr, usage, header, items, footer] line numbers (0 = absent)]
Rec    == ndJsonDeserialize(IOEnv.TRACE)
DefSeq == ndJsonDeserialize(IOEnv.DEFS)
DefById(id) == DefSeq[CHOOSE k \in DOMAIN DefSeq : DefSeq[k].id = id]
VARIABLES l, bad
hvars == <<l, bad>>
DefNames(dd) == UNION {UNION {NamesOf(it) : it \in LeavesOf(lv)} : lv \in AllLevels(dd)}
Problems(r) ==
  LET dd == DefById(r.def)      \* (looked up once per record)
      lvl == LevelAt(dd, r.path)
      names == DefNames(dd)
      items == RangeOf(r.items)  all == RangeOf(r.all) IN
  [missing   |-> (MustList(lvl) \ (IF r.kind = "help" THEN items ELSE all))
                 \* a usage line supplied by the program (usage / with_usage) is what help shows
                 \cup (IF r.kind = "help" /\ "usage_token" \in DOMAIN lvl /\ lvl.usage_token \notin all THEN {lvl.usage_token} ELSE {}),
   \* (a document covers every level at once: a hidden item's name may be the name of a visible item of another level)
   forbidden |-> IF r.kind = "help" THEN MustNotMention(lvl) \cap all
                 ELSE LET m == MustNotMention(lvl) \cap all IN
                      IF m = {} THEN {} ELSE m \ UNION {MustList(LevelAt(dd, q)) : q \in VisiblePaths(dd)},
   foreign   |-> IF r.kind = "help" THEN (items \cap names) \ MayList(lvl) ELSE {},
   \* the usage line is exactly the one Usage.tla computes from the definition (a line supplied by the program aside)
   usage     |-> IF r.kind = "help" /\ "usage" \in DOMAIN r /\ "usage_token" \notin DOMAIN lvl /\ r.usage # UsageLineS(lvl, r.path, "")
                 THEN UsageLine(lvl, r.path) ELSE "",
   \* the generated documentation shows the same usage line for every command level (markdown and html carry it
   \* literally, a manpage as its SYNOPSIS; a line supplied by the program aside)
   docusage  |-> IF r.kind \in {"markdown", "html", "manpage"} /\ "usages" \in DOMAIN r
                 THEN {UsageLineS(LevelAt(dd, p), p, "") :
                         p \in {q \in VisiblePaths(dd) : "usage_token" \notin DOMAIN LevelAt(dd, q)}} \ RangeOf(r.usages)
                 ELSE {},
   misplaced |-> IF r.kind = "help" /\ "sections" \in DOMAIN r THEN Misplaced(lvl, r) ELSE {},
   order     |-> IF r.kind # "help" THEN TRUE
                 ELSE LET o == r.order  Lt(a, b) == a = 0 \/ b = 0 \/ a < b IN
                      /\ Lt(o.descr, o.usage) /\ Lt(o.usage, o.header) /\ Lt(o.header, o.items) /\ Lt(o.items, o.footer)
                      /\ Lt(o.usage, o.items) /\ Lt(o.descr, o.items) /\ o.usage # 0]
HInit == l = 1 /\ bad = 0 /\ def = DefSeq[1] /\ env = <<>> /\ line = <<>> /\ st = 0
HNext == /\ l <= Len(Rec)
         /\ LET p == Problems(Rec[l]) IN
            IF p.missing = {} /\ p.forbidden = {} /\ p.foreign = {} /\ p.order /\ p.usage = "" /\ p.misplaced = {} /\ p.docusage = {} THEN bad' = bad
            ELSE PrintT(<<"REJECT", l, ToJson(p)>>) /\ bad' = bad + 1
         /\ l' = l + 1 /\ UNCHANGED vars
AllConsumed == IF TLCGet("stats").diameter - 1 = Len(Rec) THEN TRUE
               ELSE Print(<<"INCOMPLETE", TLCGet("stats").diameter, Len(Rec)>>, FALSE)
\* design-level sanity of the listing itself: nothing is required and forbidden at once, every listed
\* name is owned by an item of that level (so CmdLine's acceptor takes it)
ListingConsistent == \A k \in DOMAIN DefSeq : \A p \in AllPaths(DefSeq[k]) :
                        LET lvl == LevelAt(DefSeq[k], p) IN
                        /\ MustList(lvl) \cap MustNotMention(lvl) = {}
                        /\ \A it \in LeavesOf(lvl) : ~Hidden(it) => \A n \in FirstNames(it) : GOwner(lvl, n) # {}
=============================================================================
