CONSTANT Preds = {}
INIT TInit
NEXT TNext
INVARIANTS ValueOnlyOnSuccess
CHECK_DEADLOCK FALSE
