---------------------------- MODULE MC_Process ----------------------------
EXTENDS Process
MCPreds == {[class |-> "ok", text |-> "", vjson |-> "1"], [class |-> "stdout", text |-> "Usage", vjson |-> ""],
            [class |-> "stdout", text |-> "Version: 1", vjson |-> ""], [class |-> "completion", text |-> "--flag", vjson |-> ""],
            [class |-> "stderr", text |-> "bad", vjson |-> ""], [class |-> "stderr", text |-> "", vjson |-> ""],
            [class |-> "panic", text |-> "boom", vjson |-> ""]}
=============================================================================
