------------------------------- MODULE Process -------------------------------
(***************************************************************************)
(* C11 - what a process built around OptionParser::run() may do, as seen   *)
(* from outside: it is spawned with a prediction (the outcome run_inner    *)
(* gives for the same arguments and program name), writes to stdout and/or *)
(* stderr, may reach the program body, and exits.                          *)
(*   value      -> body reached (prints its BODY line), exit 0             *)
(*   stdout     -> the text and a newline on stdout, exit 0, no body       *)
(*   completion -> the text verbatim on stdout, exit 0, no body            *)
(*   stderr     -> "Error: " + text + newline on stderr, exit 1, no body   *)
(***************************************************************************)
EXTENDS Naturals, Sequences, TLC
CONSTANTS Preds          \* set of predictions [class, text, vjson] explored at design level
VARIABLES phase, pred, outs, body, code
pvars == <<phase, pred, outs, body, code>>
NL == "\n"
Expected(p) == CASE p.class = "ok"         -> [stream |-> "stdout", text |-> "BODY " \o p.vjson \o NL]
                 [] p.class = "stdout"     -> [stream |-> "stdout", text |-> p.text \o NL]
                 [] p.class = "completion" -> [stream |-> "stdout", text |-> p.text]
                 [] p.class = "stderr"     -> [stream |-> "stderr", text |-> "Error: " \o p.text \o NL]
                 [] OTHER                  -> [stream |-> "none", text |-> ""]     \* a panic is never expected
PInit == phase = "idle" /\ pred = [class |-> "none", text |-> "", vjson |-> ""] /\ outs = <<>> /\ body = FALSE /\ code = 0 - 1
Spawn(p) == /\ phase \in {"idle", "done"} /\ phase' = "running" /\ pred' = p /\ outs' = <<>> /\ body' = FALSE /\ code' = 0 - 1
Out(stream, text) == /\ phase = "running" /\ outs = <<>>
                     /\ Expected(pred).stream = stream /\ Expected(pred).text = text
                     /\ (pred.class = "stderr" => pred.text # "")           \* failures carry a non-empty message
                     /\ outs' = Append(outs, stream) /\ UNCHANGED <<phase, pred, body, code>>
Body == /\ phase = "running" /\ pred.class = "ok" /\ outs = <<"stdout">> /\ ~body
        /\ body' = TRUE /\ UNCHANGED <<phase, pred, outs, code>>
Exit(c) == /\ phase = "running"
           /\ pred.class \in {"ok", "stdout", "completion", "stderr"}      \* nothing else is ever a prediction
           /\ c = (IF pred.class = "stderr" THEN 1 ELSE 0)
           /\ body = (pred.class = "ok")
           /\ (Expected(pred).text # "" => outs # <<>>)
           /\ phase' = "done" /\ code' = c /\ UNCHANGED <<pred, outs, body>>
PNext == \/ \E p \in Preds : Spawn(p)
         \/ \E s \in {"stdout", "stderr"}, p \in Preds : Out(s, Expected(p).text)
         \/ Body \/ \E c \in {0, 1, 101} : Exit(c)
PSpec == PInit /\ [][PNext]_pvars
\* properties of the protocol (checked by TLC on the small design model)
StreamsAndStatus == phase = "done" =>
                      /\ (code = 0) = (pred.class \in {"ok", "stdout", "completion"})
                      /\ (code = 1) = (pred.class = "stderr")
                      /\ body = (pred.class = "ok")
                      /\ (pred.class = "stderr" => outs = <<"stderr">>)
                      /\ (pred.class \in {"stdout", "ok"} => outs = <<"stdout">>)
ValueOnlyOnSuccess == body => pred.class = "ok"
=============================================================================
