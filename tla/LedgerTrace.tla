---------------------------- MODULE LedgerTrace ----------------------------
(***************************************************************************)
(* impl -> spec for the consumption ledger: every event emitted by the     *)
(* hooks compiled into bpaf (--cfg bpaf_verif) must be an enabled action   *)
(* of this machine.  Events carry the projected ledger of the `State` they *)
(* were emitted on, so each is checkable on its own although states are    *)
(* cloned and swapped; regions working on a clone are bracketed and the    *)
(* matching stack is kept here.                                            *)
(*  remove      in scope, on a present item, changes exactly that item     *)
(*  fork..commit   what was parsed stays parsed                            *)
(*  fork..rollback the ledger and the scope are exactly the forked ones    *)
(*  or_fork..or_pick  winner rule (leftmost consumed, ties to the first)   *)
(*  adj_enter..adj_accept  the consumed items are one block beginning at   *)
(*              the attempt's start; scope restored (also on adj_fail)     *)
(*  cmd_enter   the command name was the first present item of its scope   *)
(*  verdict ok  nothing present is left in scope                           *)
(*  end ok      every item of the line is parsed (C05: used exactly once)  *)
(* A rejected event is reported, the rest of that run is skipped and       *)
(* validation resumes with the next run.                                   *)
(***************************************************************************)
EXTENDS Naturals, Sequences, FiniteSets, TLC, Json, IOUtils
Rec == ndJsonDeserialize(IOEnv.TRACE)
VARIABLES l, led, lo, hi, stack, rlo, skipping, bad
vars == <<l, led, lo, hi, stack, rlo, skipping, bad>>
Present(c) == c \in {"U", "C"}
E == Rec[l]
Is(e) == E.e = e
PresentIn(ld, a, b) == {i \in 1..Len(ld) : a <= i - 1 /\ i - 1 < b /\ Present(ld[i])}
RemOK == E.rem = Cardinality(PresentIn(E.led, E.lo, E.hi))
ScopeOK == E.lo <= E.hi /\ E.hi <= Len(E.led)
Adopt == led' = E.led /\ lo' = E.lo /\ hi' = E.hi
Top == stack[Len(stack)]
Pop == SubSeq(stack, 1, Len(stack) - 1)
Push(op) == stack' = Append(stack, [op |-> op, led |-> E.led, lo |-> E.lo, hi |-> E.hi])
Keep == UNCHANGED <<rlo>>

Tokens == Is("tokens") /\ UNCHANGED <<led, lo, hi, stack, rlo>>          \* tokeniser event, judged by LexTrace
Construct == Is("construct") /\ RemOK /\ ScopeOK /\ Adopt /\ stack' = <<>> /\ rlo' = 0
Remove == /\ Is("remove") /\ RemOK /\ ScopeOK
          /\ LET ix == E.ix + 1  b == E.before IN
             /\ b.lo <= E.ix /\ E.ix < b.hi                      \* in scope
             /\ Present(b.led[ix])                               \* on a present item
             /\ E.led = [b.led EXCEPT ![ix] = "P"]               \* exactly that item
             /\ E.lo = b.lo /\ E.hi = b.hi
             /\ rlo' = b.lo
          /\ Adopt /\ UNCHANGED stack
SetScope == Is("set_scope") /\ RemOK /\ ScopeOK /\ Adopt /\ UNCHANGED stack /\ Keep
Fork == Is("fork") /\ RemOK /\ Adopt /\ Push("fork") /\ Keep
Commit == /\ Is("commit") /\ stack # <<>> /\ Top.op = "fork" /\ RemOK
          /\ \A i \in 1..Len(E.led) : Top.led[i] = "P" => E.led[i] = "P"
          /\ Adopt /\ stack' = Pop /\ Keep
Rollback == /\ Is("rollback") /\ stack # <<>> /\ Top.op = "fork" /\ RemOK
            /\ E.led = Top.led /\ E.lo = Top.lo /\ E.hi = Top.hi
            /\ Adopt /\ stack' = Pop /\ Keep
Fail == Is("fail") /\ stack # <<>> /\ Top.op = "fork" /\ Adopt /\ stack' = Pop /\ Keep
OrFork == Is("or_fork") /\ Adopt /\ Push("or") /\ Keep
FirstDiff(a, b) == LET D == {i \in 1..Len(a) : (a[i] = "P") # (b[i] = "P")} IN
                   IF D = {} THEN 0 ELSE CHOOSE i \in D : \A j \in D : i <= j
OrPick == /\ Is("or_pick") /\ stack # <<>> /\ Top.op = "or"
          /\ (E.by = "ledger" /\ E.a_ok /\ E.b_ok) =>
               LET d == FirstDiff(E.a.led, E.b.led) IN
               E.pick = (IF d = 0 \/ E.a.led[d] = "P" THEN "a" ELSE "b")          \* leftmost, ties to the first (C07)
          /\ (E.by = "ledger" /\ E.a_ok /\ ~E.b_ok) => E.pick = "a"
          /\ (E.by = "ledger" /\ ~E.a_ok /\ E.b_ok) => E.pick = "b"
          /\ (E.by = "ledger" /\ ~E.a_ok /\ ~E.b_ok) => (E.pick = "none" /\ E.led = Top.led)
          /\ (E.by = "depth") => (E.pick = (IF E.a.depth > E.b.depth THEN "a" ELSE "b") /\ E.a.depth # E.b.depth)
          \* the winner's ledger is taken; the loser's consumed items stay present in it
          /\ E.pick = "a" => \A i \in 1..Len(E.led) : (E.led[i] = "P") = (E.a.led[i] = "P")
          /\ E.pick = "b" => \A i \in 1..Len(E.led) : (E.led[i] = "P") = (E.b.led[i] = "P")
          /\ Adopt /\ stack' = Pop /\ Keep
AdjEnter == Is("adj_enter") /\ Adopt /\ Push("adj") /\ Keep
AdjTry == Is("adj_try") /\ stack # <<>> /\ Top.op = "adj" /\ ScopeOK /\ Adopt /\ UNCHANGED stack /\ Keep
AdjAccept == /\ Is("adj_accept") /\ stack # <<>> /\ Top.op = "adj" /\ RemOK
             /\ LET C == {i \in 1..Len(E.led) : Top.led[i] # "P" /\ E.led[i] = "P"} IN
                /\ C # {} /\ C = (E.start + 1)..(E.start + Cardinality(C))          \* one contiguous block (C19)
             /\ E.lo = Top.lo /\ E.hi = Top.hi                                     \* scope restored
             /\ Adopt /\ stack' = Pop /\ Keep
AdjFail == /\ Is("adj_fail") /\ stack # <<>> /\ Top.op = "adj"
           /\ E.lo = Top.lo /\ E.hi = Top.hi                                       \* scope restored on failure too (C10)
           /\ Adopt /\ stack' = Pop /\ Keep
CmdEnter == /\ Is("cmd_enter") /\ RemOK
            /\ E.lo = E.ix /\ E.led[E.ix + 1] = "P"
            /\ \A i \in (rlo + 1)..E.ix : E.led[i] = "P"       \* the name was the first present item of its scope (C08)
            /\ Adopt /\ UNCHANGED stack /\ Keep
Verdict == /\ Is("verdict") /\ (E.v = "ok" => PresentIn(E.led, E.lo, E.hi) = {})
           /\ Adopt /\ UNCHANGED stack /\ Keep
End == /\ Is("end") /\ (E.class = "ok" => \A i \in 1..Len(led) : led[i] = "P")     \* a value only on a fully used line (C05)
       /\ UNCHANGED <<led, lo, hi>> /\ stack' = <<>> /\ Keep
Step == Tokens \/ Construct \/ Remove \/ SetScope \/ Fork \/ Commit \/ Rollback \/ Fail \/ OrFork \/ OrPick
        \/ AdjEnter \/ AdjTry \/ AdjAccept \/ AdjFail \/ CmdEnter \/ Verdict \/ End
Init == l = 1 /\ led = <<>> /\ lo = 0 /\ hi = 0 /\ stack = <<>> /\ rlo = 0 /\ skipping = FALSE /\ bad = 0
Next == /\ l <= Len(Rec) /\ l' = l + 1
        /\ IF skipping
           THEN /\ skipping' = ~Is("end") /\ UNCHANGED <<led, lo, hi, rlo, bad>> /\ stack' = <<>>
           ELSE IF ENABLED Step
                THEN Step /\ UNCHANGED <<skipping, bad>>
                ELSE /\ PrintT(<<"REJECT", l, E.e>>)
                     /\ skipping' = ~Is("end") /\ bad' = bad + 1 /\ UNCHANGED <<led, lo, hi, rlo>> /\ stack' = <<>>
AllConsumed == IF l = Len(Rec) + 1 THEN TRUE ELSE Print(<<"INCOMPLETE", l>>, FALSE)
=============================================================================
