---- MODULE MC_History ----
EXTENDS History
MCCalls == {[key |-> "p1", op |-> "parse"], [key |-> "c1", op |-> "complete"], [key |-> "d1", op |-> "doc"]}
MCResults == {[class |-> "ok", hash |-> "a"], [class |-> "stderr", hash |-> "b"], [class |-> "completion", hash |-> "c"],
              [class |-> "doc", hash |-> "d"], [class |-> "panic", hash |-> "e"], [class |-> "hang", hash |-> ""]}
====
