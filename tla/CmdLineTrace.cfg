CONSTANT Defs = {}
INIT TInit
NEXT TNext
INVARIANTS TOutOK THelpWins TDelivered
POSTCONDITION Complete
CHECK_DEADLOCK FALSE
