CONSTANT Defs <- MCDefs
SPECIFICATION TSpec
INVARIANTS TTypeOK TFunctional TScope TNoResurrection THelpInside TEmit
CHECK_DEADLOCK FALSE
