----------------------------- MODULE ShellWords -----------------------------
(***************************************************************************)
(* C15 - the text bpaf emits for shell completion must be a sequence of    *)
(* complete directives in which every string coming from the user (typed   *)
(* word, names, help texts, groups, masks) is DATA for the shell.          *)
(*                                                                         *)
(* Lex is a model of POSIX/zsh word lexing restricted to what matters for  *)
(* inertness: outside quotes blanks separate words, newlines separate      *)
(* commands, `( ) ; | &` are operators and `$ ` " * ? [ ] { } < > ~ #`     *)
(* make a word active; inside single quotes everything is literal; a       *)
(* backslash outside quotes makes the next character literal.              *)
(* A command is accepted when it matches one of bpaf's directive templates *)
(* and all its data words were produced entirely by quoting.               *)
(* For zsh and bash the decoded data words must be, as bags, the candidate *)
(* texts computed for the same line; for fish and elvish (one candidate    *)
(* per line, optional tab and help) the first fields must be the           *)
(* candidates.                                                             *)
(***************************************************************************)
EXTENDS Naturals, Sequences, FiniteSets, TLC, SequencesExt

RangeOf(s) == {s[i] : i \in DOMAIN s}
Ops    == {"(", ")", ";", "|", "&"}
Active == {"$", "`", "\"", "*", "?", "[", "]", "{", "}", "<", ">", "~", "#", "!"}
NL     == "\n"
NewWord == [t |-> "w", cs |-> <<>>, inert |-> TRUE, open |-> FALSE, nl |-> FALSE]      \* nl: a line break inside the word

\* cs : characters still to read; st \in {"n","q","e"}; cur : word being built; toks : tokens so far
RECURSIVE LexR(_, _, _, _)
Flush(cur, toks) == IF cur.open THEN Append(toks, cur) ELSE toks
LexR(cs, st, cur, toks) ==
  IF cs = <<>> THEN [ok |-> st = "n", toks |-> Flush(cur, toks)]
  ELSE LET c == Head(cs)  r == Tail(cs) IN
    CASE st = "q" -> IF c = "'" THEN LexR(r, "n", cur, toks)
                     ELSE LexR(r, "q", [cur EXCEPT !.cs = Append(@, c), !.nl = @ \/ c = NL], toks)
      [] st = "e" -> LexR(r, "n", [cur EXCEPT !.cs = Append(@, c), !.open = TRUE, !.nl = @ \/ c = NL], toks)
      [] st = "n" ->
           IF c = "'" THEN LexR(r, "q", [cur EXCEPT !.open = TRUE], toks)
           ELSE IF c = "\\" THEN LexR(r, "e", cur, toks)
           ELSE IF c = " " \/ c = "\t" THEN LexR(r, "n", NewWord, Flush(cur, toks))
           ELSE IF c = NL THEN LexR(r, "n", NewWord, Append(Flush(cur, toks), [t |-> "nl"]))
           ELSE IF c \in Ops THEN LexR(r, "n", NewWord, Append(Flush(cur, toks), [t |-> "op", c |-> c]))
           ELSE LexR(r, "n", [cur EXCEPT !.cs = Append(@, c), !.open = TRUE,
                                        !.inert = @ /\ c \notin Active], toks)
Lex(cs) == LexR(cs, "n", NewWord, <<>>)

\* bpaf's quoting (the Shell wrapper): ' ... ' with every ' written as '\''
RECURSIVE QuoteR(_)
QuoteR(s) == IF s = <<>> THEN <<>>
             ELSE IF Head(s) = "'" THEN <<"'", "\\", "'", "'">> \o QuoteR(Tail(s)) ELSE <<Head(s)>> \o QuoteR(Tail(s))
Quote(s) == <<"'">> \o QuoteR(s) \o <<"'">>

(* ------------------------------------------------------------------ commands and templates *)
RECURSIVE SplitNL(_, _, _)
SplitNL(toks, cur, done) == IF toks = <<>> THEN (IF cur = <<>> THEN done ELSE Append(done, cur))
                            ELSE IF Head(toks).t = "nl" THEN SplitNL(Tail(toks), <<>>, IF cur = <<>> THEN done ELSE Append(done, cur))
                            ELSE SplitNL(Tail(toks), Append(cur, Head(toks)), done)
IsLit(tok, chars) == tok.t = "w" /\ tok.cs = chars
IsOp(tok, c) == tok.t = "op" /\ tok.c = c
Data(tok) == tok.t = "w" /\ tok.inert            \* a word no unquoted metacharacter contributed to
Str(s) == [i \in 1..Len(s) |-> s[i]]
L(x) == x                                        \* literal words are given as character sequences

\* result: [ok, data : Seq(word texts that are candidate data), files : BOOLEAN (a file completer was requested)]
Bad == [ok |-> FALSE, data |-> <<>>, kind |-> "bad"]
Good(d, k) == [ok |-> TRUE, data |-> d, kind |-> k]

W_compadd == <<"c","o","m","p","a","d","d">>
W_dd      == <<"-","-">>
W_local   == <<"l","o","c","a","l">>
W_a       == <<"-","a">>
W_descr   == <<"d","e","s","c","r">>
W_descreq == <<"d","e","s","c","r","=">>
W_l       == <<"-","l">>
W_V       == <<"-","V">>
W_X       == <<"-","X">>
W_d       == <<"-","d">>
W_nosort  == <<"n","o","s","o","r","t">>
W_files   == <<"_","f","i","l","e","s">>
W_g       == <<"-","g">>
W_slash   == <<"-","/">>
W_reply   == <<"C","O","M","P","R","E","P","L","Y","+","=">>
W_cur     == <<"c","u","r">>
W_prev    == <<"p","r","e","v">>
W_words   == <<"w","o","r","d","s">>
W_cword   == <<"c","w","o","r","d">>
W_init    == <<"_","i","n","i","t","_","c","o","m","p","l","e","t","i","o","n">>
W_return  == <<"r","e","t","u","r","n">>
W_filedir == <<"_","f","i","l","e","d","i","r">>

ZshCmd(c) ==
  LET n == Len(c) IN
  IF n = 3 /\ IsLit(c[1], W_compadd) /\ IsLit(c[2], W_dd) /\ Data(c[3]) THEN Good(<<c[3].cs>>, "cand")
  ELSE IF n = 2 /\ IsLit(c[1], W_compadd) /\ Data(c[2]) /\ c[2].cs = <<>> THEN Good(<<>>, "empty")
  ELSE IF n = 3 /\ IsLit(c[1], W_local) /\ IsLit(c[2], W_a) /\ IsLit(c[3], W_descr) THEN Good(<<>>, "decl")
  ELSE IF n = 4 /\ IsLit(c[1], W_descreq) /\ IsOp(c[2], "(") /\ Data(c[3]) /\ IsOp(c[4], ")") THEN Good(<<>>, "descr")
  ELSE IF n = 8 /\ IsLit(c[1], W_compadd) /\ IsLit(c[2], W_l) /\ IsLit(c[3], W_V) /\ IsLit(c[4], W_nosort)
               /\ IsLit(c[5], W_d) /\ IsLit(c[6], W_descr) /\ IsLit(c[7], W_dd) /\ Data(c[8]) THEN Good(<<c[8].cs>>, "cand")
  ELSE IF n = 10 /\ IsLit(c[1], W_compadd) /\ IsLit(c[2], W_l) /\ IsLit(c[3], W_d) /\ IsLit(c[4], W_descr)
                /\ IsLit(c[5], W_V) /\ Data(c[6]) /\ IsLit(c[7], W_X) /\ Data(c[8]) /\ IsLit(c[9], W_dd) /\ Data(c[10])
       THEN Good(<<c[10].cs>>, "cand")
  ELSE IF n >= 1 /\ IsLit(c[1], W_files)
       THEN (IF n = 1 THEN Good(<<>>, "files")
             ELSE IF n = 2 /\ IsLit(c[2], W_slash) THEN Good(<<>>, "files")
             ELSE IF n = 3 /\ IsLit(c[2], W_g) /\ Data(c[3]) THEN Good(<<>>, "files")
             ELSE IF n = 4 /\ IsLit(c[2], W_slash) /\ IsLit(c[3], W_g) /\ Data(c[4]) THEN Good(<<>>, "files")
             ELSE Bad)
  ELSE Bad

BashCmd(c) ==
  LET n == Len(c) IN
  IF n >= 3 /\ IsLit(c[1], W_reply) /\ IsOp(c[2], "(") /\ IsOp(c[n], ")")
            /\ \A i \in 3..(n - 1) : Data(c[i])
  THEN Good([i \in 1..(n - 3) |-> c[i + 2].cs], "cand")
  ELSE IF n >= 12 /\ IsLit(c[1], W_local) /\ IsLit(c[2], W_cur) /\ IsLit(c[3], W_prev) /\ IsLit(c[4], W_words)
               /\ IsLit(c[5], W_cword) /\ IsOp(c[6], ";") /\ IsLit(c[7], W_init) /\ IsOp(c[8], "|") /\ IsOp(c[9], "|")
               /\ IsLit(c[10], W_return) /\ IsOp(c[11], ";") /\ IsLit(c[12], W_filedir)
               /\ (n = 12 \/ (n = 13 /\ (IsLit(c[13], W_d) \/ Data(c[13]))) \/ (n = 14 /\ IsLit(c[13], W_d) /\ Data(c[14])))
  THEN Good(<<>>, "files")
  ELSE Bad

RECURSIVE Judge(_, _, _, _)
Judge(cmds, shell, data, nfiles) ==
  IF cmds = <<>> THEN [ok |-> TRUE, data |-> data, nfiles |-> nfiles]
  ELSE LET r == IF shell = "zsh" THEN ZshCmd(Head(cmds)) ELSE BashCmd(Head(cmds))
           \* zsh shows a lone placeholder as `compadd -- TEXT` followed by `compadd ''`: not a candidate
           placeholder == shell = "zsh" /\ r.ok /\ r.kind = "cand" /\ Tail(cmds) # <<>>
                          /\ ZshCmd(Head(Tail(cmds))).kind = "empty" IN
       IF ~r.ok THEN [ok |-> FALSE, data |-> data, nfiles |-> nfiles]
       ELSE Judge(Tail(cmds), shell, IF placeholder THEN data ELSE data \o r.data,
                  nfiles + (IF r.kind = "files" THEN 1 ELSE 0))

SeqToBag(s) == LET R == RangeOf(s) IN [x \in R |-> Cardinality({i \in DOMAIN s : s[i] = x})]

\* a whole output for zsh or bash: chars = the text, raws = user supplied raw lines removed beforehand,
\* expect = candidate texts (as character sequences) that must appear exactly once each, nfiles = shell completers requested
NonEmpty(s) == SelectSeq(s, LAMBDA x : x # <<>>)
\* zsh: the data words are the replacements; bash: display strings - one per candidate, each beginning
\* with the candidate's replacement or its pretty form - plus group headers
\* typednl: the word being completed contains a line break (it has no one-line spelling inside '...'); every other
\* string - names, help texts, group names, masks, completer values - reaches the output on the line of its directive
AcceptScript(shell, chars, items, groups, nfiles, typednl) ==
  LET lx == Lex(chars) IN
  IF ~lx.ok THEN [ok |-> FALSE, why |-> "unterminated"]
  ELSE IF ~typednl /\ \E i \in DOMAIN lx.toks : lx.toks[i].t = "w" /\ lx.toks[i].nl THEN [ok |-> FALSE, why |-> "multiline"]
  ELSE LET j == Judge(SplitNL(lx.toks, <<>>, <<>>), shell, <<>>, 0) IN
       IF ~j.ok THEN [ok |-> FALSE, why |-> "directive"]
       ELSE IF j.nfiles # nfiles THEN [ok |-> FALSE, why |-> "completers"]
       ELSE IF shell = "zsh"
            THEN (IF SeqToBag(NonEmpty(j.data)) = SeqToBag(NonEmpty([i \in DOMAIN items |-> items[i].subst]))
                  THEN [ok |-> TRUE, why |-> ""] ELSE [ok |-> FALSE, why |-> "candidates"])
            ELSE LET ws == SelectSeq(NonEmpty(j.data), LAMBDA w : w \notin RangeOf(groups)) IN
                 IF Len(ws) = Len(items)
                    /\ \A i \in DOMAIN items : \E k \in DOMAIN ws :
                          (items[i].subst # <<>> /\ IsPrefix(items[i].subst, ws[k])) \/ IsPrefix(items[i].pretty, ws[k])
                 THEN [ok |-> TRUE, why |-> ""] ELSE [ok |-> FALSE, why |-> "candidates"]

\* fish / elvish: lines = Seq(Seq(field : Seq(char))) as split at newlines and tabs by the harness
\* fish reads every line as a candidate: a line whose first field is empty (a placeholder for a metavariable) is a
\* bogus candidate there (`strict`); elvish output is filtered by bpaf's own elvish script
AcceptLines(lines, items, strict) ==
  IF \E i \in DOMAIN lines : Len(lines[i]) > 2 \/ Len(lines[i]) = 0 THEN [ok |-> FALSE, why |-> "fields"]
  ELSE IF strict /\ \E i \in DOMAIN lines : lines[i][1] = <<>> THEN [ok |-> FALSE, why |-> "empty_candidate"]
  ELSE IF SeqToBag(NonEmpty([i \in DOMAIN lines |-> lines[i][1]])) # SeqToBag(NonEmpty([i \in DOMAIN items |-> items[i].subst]))
       THEN [ok |-> FALSE, why |-> "candidates"]
  ELSE [ok |-> TRUE, why |-> ""]
=============================================================================
