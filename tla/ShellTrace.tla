----------------------------- MODULE ShellTrace -----------------------------
(* every recorded completion output for revisions 1/7/8/9 must be accepted by ShellWords *)
EXTENDS ShellWords, Json, IOUtils
Rec == ndJsonDeserialize(IOEnv.TRACE)
VARIABLES l, bad
Verdict(r) == IF r.shell \in {"zsh", "bash"} THEN AcceptScript(r.shell, r.chars, r.items, r.groups, r.nfiles, r.typednl)
              ELSE AcceptLines(r.lines, r.items, r.shell = "fish")
Init == l = 1 /\ bad = 0
Next == /\ l <= Len(Rec)
        /\ LET v == Verdict(Rec[l]) IN
           IF v.ok THEN bad' = bad ELSE PrintT(<<"REJECT", l, v.why>>) /\ bad' = bad + 1
        /\ l' = l + 1
AllConsumed == IF TLCGet("stats").diameter - 1 = Len(Rec) THEN TRUE
               ELSE Print(<<"INCOMPLETE", TLCGet("stats").diameter, Len(Rec)>>, FALSE)
=============================================================================
