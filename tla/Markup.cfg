INIT MInit
NEXT MNext
INVARIANT StackTagsKnown
CHECK_DEADLOCK FALSE
