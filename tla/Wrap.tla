-------------------------------- MODULE Wrap --------------------------------
(***************************************************************************)
(* C13 - acceptor for console renderings.  A rendering at width w is a     *)
(* sequence of lines, each an indentation followed by words separated by   *)
(* gaps.  It is accepted iff                                               *)
(*   - its text with whitespace removed equals that of the unwrapped       *)
(*     rendering of the same document (wrapping only moves whitespace),    *)
(*   - for w >= 40 every line satisfies WidthOK: it fits in w + 2 columns, *)
(*     or it is a preformatted line (present verbatim in the unwrapped     *)
(*     rendering), or what follows its indentation - or its definition     *)
(*     term, separated by a gap of two or more blanks - is a single word.  *)
(* The short form of a document contains the first paragraph of each help  *)
(* text and nothing of the later ones: it is the full form without the     *)
(* later paragraphs of the item help texts, token for token.               *)
(* A small design model (WrapDesign) shows the acceptor is not vacuous and    *)
(* not over-strict: the greedy wrap of any word sequence is accepted.      *)
(***************************************************************************)
EXTENDS Naturals, Sequences, FiniteSets, TLC, Json, IOUtils
RangeOf(s) == {s[i] : i \in DOMAIN s}
RECURSIVE SumW(_)
SumW(ts) == IF ts = <<>> THEN 0 ELSE Head(ts).g + Head(ts).w + SumW(Tail(ts))
LineLen(ln) == ln.indent + SumW(ln.toks)
\* words after the definition term (first gap of two or more blanks), or all of them
Body(ln) == LET J == {j \in DOMAIN ln.toks : j > 1 /\ ln.toks[j].g >= 2} IN
            IF J = {} THEN ln.toks ELSE SubSeq(ln.toks, CHOOSE j \in J : \A i \in J : j <= i, Len(ln.toks))
WidthOK(ln, w) == LineLen(ln) <= w + 2 \/ ln.code \/ Len(Body(ln)) <= 1
Accepted(r) == /\ r.got = r.refs
               /\ r.width >= 40 => \A i \in DOMAIN r.lines : WidthOK(r.lines[i], r.width)
\* the greedy wrap of a word sequence (lengths ws) at width w with left margin m
RECURSIVE Greedy(_, _, _, _, _)
Greedy(ws, w, m, cur, done) ==
  IF ws = <<>> THEN (IF cur = <<>> THEN done ELSE Append(done, [indent |-> m, toks |-> cur, code |-> FALSE]))
  ELSE LET x == Head(ws)  col == m + SumW(cur) IN
       IF cur = <<>> THEN Greedy(Tail(ws), w, m, <<[g |-> 0, w |-> x]>>, done)
       ELSE IF col + 1 + x <= w THEN Greedy(Tail(ws), w, m, Append(cur, [g |-> 1, w |-> x]), done)
       ELSE Greedy(ws, w, m, <<>>, Append(done, [indent |-> m, toks |-> cur, code |-> FALSE]))
\* ------------------------------------------------------------ trace validation
Rec == ndJsonDeserialize(IOEnv.TRACE)
VARIABLES l, bad
Init == l = 1 /\ bad = 0
Next == /\ l <= Len(Rec)
        /\ LET r == Rec[l] IN
           IF r.kind = "wrap"
           THEN IF Accepted(r) THEN bad' = bad
                ELSE PrintT(<<"REJECT", l, IF r.got = r.refs THEN "width" ELSE "content">>) /\ bad' = bad + 1
           ELSE IF RangeOf(r.p1) \subseteq RangeOf(r.short) /\ RangeOf(r.p2) \cap RangeOf(r.short) = {} /\ r.short = r.expect
                THEN bad' = bad
                ELSE PrintT(<<"REJECT", l, "short">>) /\ bad' = bad + 1
        /\ l' = l + 1
AllConsumed == IF TLCGet("stats").diameter - 1 = Len(Rec) THEN TRUE
               ELSE Print(<<"INCOMPLETE", TLCGet("stats").diameter, Len(Rec)>>, FALSE)
=============================================================================
