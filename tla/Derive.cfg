INIT Init
NEXT Next
INVARIANT DeriveTotal
CHECK_DEADLOCK FALSE
