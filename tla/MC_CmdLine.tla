---------------------------- MODULE MC_CmdLine ----------------------------
(* Model-checking instance of CmdLine: definitions come from an NDJSON file  *)
(* (the same file the Rust harness reads), chosen through the environment.   *)
EXTENDS CmdLine, Json, IOUtils
DefSeq == ndJsonDeserialize(IOEnv.DEFS)
MCDefs == RangeOf(DefSeq)
\* replay configs print one line per reachable state: the case and the outcome demanded
\* (a help outcome also says what the text must tell about the variables of the level it describes)
Emit == PrintT(<<"REPLAY", ToJson([def |-> def.id, line |-> line, env |-> env, outside |-> st.outside,
                                   expect |-> IF Out.class = "stdout" /\ Out.kind = "help" /\ EnvVars(def) # {} /\ ~st.ambig
                                              THEN Out @@ [envlines |-> HelpEnvLines(st.frames[Len(Out.path) + 1].lvl, env)]
                                              ELSE Out])>>)
\* completion configs print, per viable state, every partial item with the bounds the specification puts on the candidates
ActiveCmds == LET t == Cur(st).lvl.tail IN
              IF t.kind = "cmd" THEN [k \in DOMAIN t.cmds |-> [n |-> t.cmds[k].names[1], w |-> CmdWords(t.cmds[k])]] ELSE <<>>
CEmit == Viable(st) => PrintT(<<"REPLAY", ToJson([def |-> def.id, line |-> line, env |-> env, outside |-> FALSE, acmds |-> ActiveCmds,
            comps |-> {[p |-> PartialText(p), must |-> MustOffer(st, p), may |-> MayOffer(st, p), pending |-> (st.pending # ""), hint |-> PosHint(st)]
                       : p \in {p \in Partials(def) : ~(p.k = "short" /\ Foreign(st, p.s)) /\ ~(p.k = "long" /\ ForeignLong(st, p.cs))}}])>>)
\* design configs hide the history: states are identified by their denotation
DesignView == <<def.id, env, st, Len(line)>>
=============================================================================
