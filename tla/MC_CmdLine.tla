---------------------------- MODULE MC_CmdLine ----------------------------
(* Model-checking instance of CmdLine: definitions come from an NDJSON file  *)
(* (the same file the Rust harness reads), chosen through the environment.   *)
EXTENDS CmdLine, Json, IOUtils
DefSeq == ndJsonDeserialize(IOEnv.DEFS)
MCDefs == RangeOf(DefSeq)
\* replay configs print one line per reachable state: the case and the outcome demanded
Emit == PrintT(<<"REPLAY", ToJson([def |-> def.id, line |-> line, env |-> env, outside |-> st.outside,
                                   expect |-> Out])>>)
\* design configs hide the history: states are identified by their denotation
DesignView == <<def.id, env, st, Len(line)>>
=============================================================================
