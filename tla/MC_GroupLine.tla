---------------------------- MODULE MC_GroupLine ----------------------------
EXTENDS GroupLine, Json, IOUtils
DefSeq == ndJsonDeserialize(IOEnv.DEFS)
MCDefs == RangeOf(DefSeq)
GEmit == PrintT(<<"REPLAY", ToJson([def |-> def.id, line |-> line, env |-> env, outside |-> st.out, expect |-> GOut])>>)
GCEmit == GViable(def, st) => PrintT(<<"REPLAY", ToJson([def |-> def.id, line |-> line, env |-> env, outside |-> FALSE, acmds |-> <<>>,
             comps |-> {[p |-> PartialText(p), must |-> GMustOffer(def, st, p), may |-> GMayOffer(def, st, p), pending |-> (st.pending # "")]
                        : p \in GPartials(def)}])>>)
GDesignView == <<def.id, st, Len(line)>>
=============================================================================
