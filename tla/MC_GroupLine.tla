---------------------------- MODULE MC_GroupLine ----------------------------
EXTENDS GroupLine, Json, IOUtils
DefSeq == ndJsonDeserialize(IOEnv.DEFS)
MCDefs == RangeOf(DefSeq)
GEmit == PrintT(<<"REPLAY", ToJson([def |-> def.id, line |-> line, env |-> env, outside |-> FALSE, expect |-> GOut])>>)
GDesignView == <<def.id, st, Len(line)>>
=============================================================================
