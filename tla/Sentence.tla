------------------------------ MODULE Sentence ------------------------------
(***************************************************************************)
(* C01 - a second, DECLARATIVE formulation of "sentence of the declared    *)
(* grammar", independent of the left-to-right acceptor of CmdLine:         *)
(*   a line is a sentence of a level iff                                   *)
(*   - cut at the first `--`, the part before it decomposes into whole     *)
(*     occurrences (flag | argument name + word | name=value | -nvalue |   *)
(*     cluster) of items of that level, plain words, and - when the level  *)
(*     has subcommands - at most one command name followed by a sentence   *)
(*     of that command, with no word in front of the command name;         *)
(*   - every item's number of occurrences is within its arity, every value *)
(*     converts and passes its guard;                                      *)
(*   - there EXISTS a split of the positional data (words before `--` and  *)
(*     everything after it) into consecutive segments, one per positional  *)
(*     item, each within that item's arity, strictness and conversion.     *)
(* TLC checks on every reachable state of CmdLine that the acceptor        *)
(* accepts exactly the sentences (environment unset, no help/version).     *)
(***************************************************************************)
EXTENDS CmdLine

\* ---- decomposition of the part before `--` into occurrences (deterministic, no semantics)
\* occurrence: [k |-> "named", n (name), v (value), hasv] | [k |-> "word", w] | [k |-> "bad"]
RECURSIVE Occs(_, _)
Occs(lvl, l) ==
  IF l = <<>> THEN <<>>
  ELSE LET e == Head(l)  r == Tail(l) IN
    CASE e.t = "word" -> <<[k |-> "word", w |-> e.s]>> \o Occs(lvl, r)
      [] e.t \in {"eq", "glued"} -> <<[k |-> "named", n |-> e.s, v |-> e.v, hasv |-> TRUE]>> \o Occs(lvl, r)
      [] e.t = "name" ->
           LET own == Owner(lvl, e.s) IN
           IF own # {} /\ lvl.named[CHOOSE j \in own : TRUE].kind = "arg"
           THEN (IF r # <<>> /\ Head(r).t = "word"
                 THEN <<[k |-> "named", n |-> e.s, v |-> Head(r).s, hasv |-> TRUE, detached |-> TRUE]>> \o Occs(lvl, Tail(r))
                 ELSE <<[k |-> "dangling"]>> \o Occs(lvl, r))
           ELSE <<[k |-> "named", n |-> e.s, v |-> "", hasv |-> FALSE]>> \o Occs(lvl, r)
      [] e.t = "cluster" ->
           [i \in DOMAIN e.ss |-> [k |-> "named", n |-> e.ss[i], v |-> "", hasv |-> FALSE]]
           \o (IF e.last = "" THEN Occs(lvl, r)
               ELSE IF e.hasv THEN <<[k |-> "named", n |-> e.last, v |-> e.v, hasv |-> TRUE]>> \o Occs(lvl, r)
               ELSE IF r # <<>> /\ Head(r).t = "word"
                    THEN <<[k |-> "named", n |-> e.last, v |-> Head(r).s, hasv |-> TRUE, detached |-> TRUE]>> \o Occs(lvl, Tail(r))
                    ELSE <<[k |-> "dangling"]>> \o Occs(lvl, r))
      [] OTHER -> <<[k |-> "bad"]>>        \* unk, help, ver

\* occurrences of one named item are within its arity and valid
ItemOK(it, os) ==
  LET mine == SelectSeq(os, LAMBDA o : o.k = "named" /\ o.n \in NamesOf(it))  n == Len(mine) IN
  /\ \A i \in DOMAIN mine : (it.kind = "arg") = mine[i].hasv
  /\ \A i \in DOMAIN mine : it.kind = "arg" => /\ ~BadValue(it, mine[i].v)
                                                /\ (it.adj => ~("detached" \in DOMAIN mine[i]))
  /\ CASE it.kind = "switch" -> n <= 1
       [] it.arity = "one" -> n = 1
       [] it.arity \in {"opt", "fallback", "fallback_with"} -> n <= 1
       [] it.arity \in {"some", "last"} -> n >= 1
       [] OTHER -> TRUE

\* EXISTS a split of the positional data ws (records [w, after]) among the positional items ps
RECURSIVE PosSplit(_, _)
Admissible(p, x) == /\ (p.strict = "strict" => x.after) /\ (p.strict = "non_strict" => ~x.after)
                    /\ ~ConvBad(p.vt, x.w)
PosSplit(ps, ws) ==
  IF ps = <<>> THEN ws = <<>>
  ELSE LET p == Head(ps)
           lo == IF p.arity \in {"one", "some"} THEN 1 ELSE 0
           hi == IF p.arity \in {"one", "opt"} THEN 1 ELSE Len(ws) IN
       \* a strict item facing a word typed before `--` is an error (documented: "expected to be on the
       \* right side of --"), it cannot be skipped as absent
       /\ ~(p.strict = "strict" /\ ws # <<>> /\ ~ws[1].after)
       /\ \E n \in lo..hi : /\ n <= Len(ws)
                            /\ \A i \in 1..n : Admissible(p, ws[i])
                            /\ PosSplit(Tail(ps), SubSeq(ws, n + 1, Len(ws)))

FirstDD(l) == LET D == {i \in DOMAIN l : l[i].t = "dd"} IN IF D = {} THEN 0 ELSE CHOOSE i \in D : \A j \in D : i <= j

\* is item i the value of a detached argument name typed just before it (decided by the decomposition)
IsValueAt(lvl, l, i) ==
  LET pre == Occs(lvl, SubSeq(l, 1, i - 1)) IN
  i > 1 /\ l[i].t = "word" /\ pre # <<>> /\ pre[Len(pre)].k = "dangling"

RECURSIVE IsSentence(_, _)
IsSentence(lvl, l) ==
  LET d == FirstDD(l)
      before == IF d = 0 THEN l ELSE SubSeq(l, 1, d - 1)
      after  == IF d = 0 THEN <<>> ELSE SubSeq(l, d + 1, Len(l))
      data   == [i \in DOMAIN after |-> [w |-> after[i].txt, after |-> TRUE]]
      \* words that are command names and not values of an argument
      C == IF lvl.tail.kind # "cmd" THEN {}
           ELSE {i \in DOMAIN before : before[i].t = "word" /\ CmdIx(lvl, before[i].s) # {} /\ ~IsValueAt(lvl, before, i)} IN
  IF C # {}
  THEN \* the first of them starts the subcommand: only named occurrences of this level in front of it,
       \* the rest of the line (including any `--`) is a sentence of the subcommand
       LET c == CHOOSE i \in C : \A j \in C : i <= j
           os == Occs(lvl, SubSeq(before, 1, c - 1))
           sub == lvl.tail.cmds[CHOOSE k \in CmdIx(lvl, before[c].s) : TRUE].level IN
       /\ \A i \in DOMAIN os : os[i].k = "named" /\ Owner(lvl, os[i].n) # {}
       /\ \A j \in DOMAIN lvl.named : ItemOK(lvl.named[j], os)
       /\ IsSentence(sub, SubSeq(l, c + 1, Len(l)))
  ELSE LET os == Occs(lvl, before)
           words == SelectSeq(os, LAMBDA o : o.k = "word")
           ws == [i \in DOMAIN words |-> [w |-> words[i].w, after |-> FALSE]] \o data IN
       /\ \A i \in DOMAIN os : os[i].k \in {"named", "word"} /\ (os[i].k = "named" => Owner(lvl, os[i].n) # {})
       /\ \A j \in DOMAIN lvl.named : ItemOK(lvl.named[j], os)
       /\ CASE lvl.tail.kind = "pos" -> PosSplit(lvl.tail.items, ws)
            [] lvl.tail.kind = "cmd" -> IF lvl.tail.else_pos # <<>> THEN PosSplit(lvl.tail.else_pos, ws)
                                        ELSE ws = <<>> /\ lvl.tail.optional
            [] OTHER -> ws = <<>>

\* positional tails for which "which word belongs to which item" does not depend on the strategy: an item of
\* variable size (optional / repeated) is followed only by items that accept words from the other side of `--`
PosItems(lvl) == IF lvl.tail.kind = "pos" THEN lvl.tail.items ELSE IF lvl.tail.kind = "cmd" THEN lvl.tail.else_pos ELSE <<>>
Unambiguous(lvl) ==
  LET ps == PosItems(lvl) IN
  \A i, j \in DOMAIN ps : (i < j /\ ps[i].arity # "one") =>
      {ps[i].strict, ps[j].strict} = {"strict", "non_strict"} /\ ps[i].strict = "non_strict"
\* the acceptor accepts exactly the sentences (inside the property's quantifier; environment unset)
SentenceIffOk ==
  (~st.outside /\ ~st.ambig /\ (\A lv \in AllLevels(def) : Unambiguous(lv)) /\ \A x \in DOMAIN env : env[x] = "UNSET"
     /\ \A i \in DOMAIN line : line[i].t \notin {"help", "ver"})
  => ((Out.class = "ok") <=> IsSentence(def, line))
=============================================================================
