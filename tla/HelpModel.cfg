CONSTANT Defs = {}
INIT HInit
NEXT HNext
INVARIANT ListingConsistent
POSTCONDITION AllConsumed
CHECK_DEADLOCK FALSE
