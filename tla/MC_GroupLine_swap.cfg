CONSTANT Defs <- MCDefs
SPECIFICATION GSpec
INVARIANTS GTypeOK GSwapCommutes
CHECK_DEADLOCK FALSE
