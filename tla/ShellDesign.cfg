INIT DInit
NEXT DNext
INVARIANTS QuoteInert RawNotInert
CHECK_DEADLOCK FALSE
