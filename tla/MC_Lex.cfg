INIT Init
NEXT Next
INVARIANTS Lemma Glued
CHECK_DEADLOCK FALSE
