------------------------------- MODULE CmdLine -------------------------------
(***************************************************************************)
(* "A user types a command line against a parser definition."              *)
(*                                                                         *)
(* Left-to-right acceptor with denotation for bpaf's conventional fragment *)
(* (switches, required flags, valued arguments of every arity, trailing    *)
(* positionals with strictness, subcommand trees, help/version, `--`,      *)
(* environment fallback).  It states what the documentation promises a     *)
(* command line means, independently of how bpaf computes it (combinators  *)
(* scanning a consumption ledger in declaration order).                    *)
(*                                                                         *)
(* Definitions are the very JSON documents the Rust harness builds real    *)
(* parsers from (Json module: objects are records, arrays are sequences),  *)
(* so specification and implementation are driven by one source.           *)
(*                                                                         *)
(* The step function is a pure operator (Step) so that the same rules      *)
(* serve three uses: the state machine explored by TLC (Next = type one    *)
(* more item), the replay generator (every reachable state is printed with *)
(* the outcome it demands) and trace validation (Run folds Step over a     *)
(* recorded line and the recorded outcome must equal Outcome).             *)
(***************************************************************************)
EXTENDS Integers, Sequences, FiniteSets, TLC, SequencesExt

RangeOf(s) == {s[i] : i \in DOMAIN s}

(* ------------------------------------------------------------------ definitions *)
\* leaf item (JSON): [id, kind \in {"switch","reqflag","arg"}, arity, vt \in {"none","str","int"},
\*                    shorts, longs, letters : Seq(STRING), env : STRING, adj, guard, hidden : BOOLEAN]
\* positional      : [id, arity \in {"one","opt","many","some","last"}, strict \in {"any","strict","non_strict"}, vt]
\* level           : [named : Seq(leaf), tail, version : BOOLEAN]
\* tail            : [kind |-> "none"] | [kind |-> "pos", items : Seq(positional)]
\*                 | [kind |-> "cmd", optional : BOOLEAN, cmds : Seq([names, shorts : Seq(STRING), level])]
NamesOf(it)    == RangeOf(it.shorts) \cup RangeOf(it.longs)
ItemIds(lvl)   == {lvl.named[k].id : k \in DOMAIN lvl.named}
Owner(lvl, n)  == {k \in DOMAIN lvl.named : n \in NamesOf(lvl.named[k])}
SingleUse(it)  == it.kind = "switch" \/ it.arity \in {"one", "opt", "fallback", "fallback_with"}
CmdWords(c)    == RangeOf(c.names) \cup RangeOf(c.shorts)
CmdIx(lvl, w)  == IF lvl.tail.kind = "cmd"
                  THEN {k \in DOMAIN lvl.tail.cmds : w \in CmdWords(lvl.tail.cmds[k])}
                  ELSE {}

RECURSIVE AllNames(_), AllLevels(_)
AllLevels(lvl) == {lvl} \cup (IF lvl.tail.kind = "cmd"
                              THEN UNION {AllLevels(lvl.tail.cmds[k].level) : k \in DOMAIN lvl.tail.cmds}
                              ELSE {})
AllNames(lvl)  == UNION {UNION {NamesOf(l.named[k]) : k \in DOMAIN l.named} : l \in AllLevels(lvl)}

(* ------------------------------------------------------------------ values *)
ToInt(w) == CASE w = "0" -> 0 [] w = "1" -> 1 [] w = "2" -> 2 [] w = "3" -> 3
              [] w = "4" -> 4 [] w = "5" -> 5 [] OTHER -> 0 - 1
IsInt(w) == w \in {"0", "1", "2", "3", "4", "5"}
GuardBad == "2"                       \* the harness' guard rejects exactly this value
FallbackInt == 7
FallbackStr == "dflt"

(* ------------------------------------------------------------------ state *)
NONE == [set |-> FALSE, path |-> <<>>, vtag |-> ""]
NewFrame(lvl) == [lvl |-> lvl, acc |-> [i \in ItemIds(lvl) |-> <<>>], pos |-> <<>>, child |-> 0]
\* short names declared as a flag somewhere in the tree and as an argument somewhere else: a
\* multi-letter item containing one cannot be tokenised (it is reported before anything else)
ShortsOfKind(d, isArg) == UNION {UNION {RangeOf(l.named[k].shorts) : k \in {k \in DOMAIN l.named : (l.named[k].kind = "arg") = isArg}}
                                 : l \in AllLevels(d)}
Ambiguous(d) == ShortsOfKind(d, TRUE) \cap ShortsOfKind(d, FALSE)
InitSt(def) == [frames |-> <<NewFrame(def)>>, path |-> <<>>, pending |-> "", posOnly |-> FALSE,
                frozen |-> FALSE, dead |-> "", helpAt |-> NONE, verAt |-> NONE, outside |-> FALSE,
                amb |-> Ambiguous(def), ambig |-> FALSE,
                \* `cargo_helper(name, ..)`: the name of the cargo subcommand may lead the line ("fresh": nothing typed yet,
                \* "skipped": it did and was dropped, "no": the line began with something else)
                cargo |-> "fresh"]

Cur(st)       == st.frames[Len(st.frames)]
SetCur(st, f) == [st EXCEPT !.frames[Len(st.frames)] = f]
Kill(st, why) == [st EXCEPT !.dead = IF @ = "" THEN why ELSE @, !.frozen = TRUE]
Feed(st, id, v) == SetCur(st, [Cur(st) EXCEPT !.acc[id] = Append(@, v)])
ItemById(lvl, id) == lvl.named[CHOOSE k \in DOMAIN lvl.named : lvl.named[k].id = id]
NonUtf8 == {"%FF", "f%FF="}            \* percent-spelled byte strings that are not UTF-8
ConvBad(vt, v) == (vt = "int" /\ ~IsInt(v)) \/ (vt = "str" /\ v \in NonUtf8)
BadValue(it, v) == ConvBad(it.vt, v) \/ (it.guard /\ v = GuardBad)
\* an argument receives a value.  `fallback` evaluates its argument on a copy of the ledger and
\* drops the copy when the value is invalid, so the offending items stay where they were typed
\* (in front of any later command name); every other arity keeps them consumed.
FeedArg(st, id, v) ==
  LET it == ItemById(Cur(st).lvl, id)
      stays == it.arity \in {"fallback", "fallback_with"} /\ Cur(st).acc[id] = <<>> /\ BadValue(it, v)
      \* a repetition stops at the first invalid value: later occurrences are never looked at and stay where
      \* they were typed, too
      stuck == it.arity \in {"many", "some", "last"} /\ \E i \in DOMAIN Cur(st).acc[id] : BadValue(it, Cur(st).acc[id][i])
      \* `catch` turns an invalid value into absence by dropping the copy of the ledger as well
      caught == it.catch /\ it.arity \in {"opt", "many", "some"} /\ BadValue(it, v) IN
  Feed(IF stays \/ stuck \/ caught THEN [st EXCEPT !.frozen = TRUE] ELSE st, id, v)
PushPos(st, w, after) == SetCur(st, [Cur(st) EXCEPT !.pos = Append(@, [w |-> w, after |-> after])])

\* a name that an enclosing level declares, typed to the right of a subcommand name: the
\* documentation does not fix what happens, the case is marked and never judged
Foreign(st, n) == \E k \in 1..(Len(st.frames) - 1) : Owner(st.frames[k].lvl, n) # {}
Mark(st, n)    == IF Foreign(st, n) THEN [st EXCEPT !.outside = TRUE] ELSE st

(* a name on its own: a flag occurrence, or an argument whose value is the next item *)
StepName(st0, n) ==
  LET st == Mark(st0, n)  lvl == Cur(st).lvl  own == Owner(lvl, n) IN
  IF own = {} THEN Kill(st, "unknown")
  ELSE LET it  == lvl.named[CHOOSE k \in own : TRUE]
           dup == SingleUse(it) /\ Len(Cur(st).acc[it.id]) >= 1
           st1 == IF dup THEN [st EXCEPT !.frozen = TRUE] ELSE st IN
       IF it.kind = "arg"
       THEN IF it.adj THEN Kill(st, "unknown")          \* restricted to attached spellings
            ELSE [st1 EXCEPT !.pending = it.id]
       ELSE Feed(st1, it.id, "U")

(* name and value in one item: --name=v  -n=v  -nv *)
StepAttached(st0, n, v) ==
  LET st == Mark(st0, n)  lvl == Cur(st).lvl  own == Owner(lvl, n) IN
  IF own = {} THEN Kill(st, "unknown")
  ELSE LET it  == lvl.named[CHOOSE k \in own : TRUE]
           dup == SingleUse(it) /\ Len(Cur(st).acc[it.id]) >= 1
           st1 == IF dup THEN [st EXCEPT !.frozen = TRUE] ELSE st IN
       IF it.kind = "arg" THEN FeedArg(st1, it.id, v)
       ELSE Kill(Feed(st1, it.id, "U"), "unexpected")   \* a flag does not take a value

\* positional items declared in front of the subcommands of a level: each takes one word, and only then can a
\* command be entered
PrePos(lvl) == IF lvl.tail.kind = "cmd" /\ "pre_pos" \in DOMAIN lvl.tail THEN lvl.tail.pre_pos ELSE <<>>
StepWord(st, w) ==
  LET lvl == Cur(st).lvl IN
  IF lvl.tail.kind = "cmd" THEN
       LET ix == CmdIx(lvl, w) IN
       IF Len(Cur(st).pos) < Len(PrePos(lvl)) THEN PushPos(st, w, FALSE)
       ELSE IF ~st.frozen /\ ix # {}
       THEN LET k == CHOOSE k \in ix : TRUE  c == lvl.tail.cmds[k] IN
            [SetCur(st, [Cur(st) EXCEPT !.child = k]) EXCEPT
                !.frames = Append(@, NewFrame(c.level)), !.path = Append(@, c.names[1])]
       \* a choice between subcommands and a positional parser: a word that does not enter a command is
       \* positional data, and being unclaimed in front of later words it rules out entering one afterwards
       ELSE IF lvl.tail.else_pos # <<>> THEN [PushPos(st, w, FALSE) EXCEPT !.frozen = TRUE]
       ELSE Kill(st, "unexpected")
  ELSE IF lvl.tail.kind = "pos" THEN PushPos(st, w, FALSE)
  ELSE Kill(st, "unexpected")

\* help and version are asked with the names the CURRENT level configures (default -h/--help, -V/--version);
\* the same text is an ordinary unknown flag at a level that configures other names or no version
Info(st, txt) ==
  IF txt \in RangeOf(Cur(st).lvl.help_names)
  THEN [st EXCEPT !.helpAt = IF @.set THEN @ ELSE [set |-> TRUE, path |-> st.path, vtag |-> ""], !.frozen = TRUE]
  ELSE IF Cur(st).lvl.version /\ txt \in RangeOf(Cur(st).lvl.ver_names)
  THEN [st EXCEPT !.verAt = IF @.set THEN @ ELSE [set |-> TRUE, path |-> st.path, vtag |-> Cur(st).lvl.vtag],
                  !.frozen = TRUE]
  ELSE Kill(st, "unknown")

\* the letters of a cluster, one after another; the short names of the help and version flags are letters
\* like any other (see ClusterItems)
RECURSIVE FoldNames(_, _)
FoldNames(st, ns) ==
  IF ns = <<>> THEN st
  ELSE FoldNames(IF Head(ns) \in {"-h", "-V"} /\ Owner(Cur(st).lvl, Head(ns)) = {} THEN Info(st, Head(ns))
                 ELSE StepName(st, Head(ns)), Tail(ns))

\* e is processed with nothing pending
Plain(st, e) ==
  CASE e.t = "dd"     -> [st EXCEPT !.posOnly = TRUE, !.frozen = TRUE]
    [] e.t \in {"help", "ver"} -> Info(st, e.txt)
    [] e.t = "unk"    -> Kill(st, "unknown")
    [] e.t = "name"   -> StepName(st, e.s)
    [] e.t = "eq" -> StepAttached(st, e.s, e.v)
    [] e.t = "glued" -> IF e.s \in st.amb THEN [st EXCEPT !.ambig = TRUE] ELSE StepAttached(st, e.s, e.v)
    [] e.t = "cluster" ->     \* -abc: flags, possibly ending in a short argument (value attached or next item)
         IF (RangeOf(e.ss) \cup {e.last}) \cap st.amb # {} THEN [st EXCEPT !.ambig = TRUE] ELSE
         LET st1 == FoldNames(st, e.ss) IN
         IF e.last = "" THEN st1
         ELSE IF e.hasv THEN StepAttached(st1, e.last, e.v) ELSE StepName(st1, e.last)
    [] e.t = "word"   -> StepWord(st, e.s)

\* the user types one more item (one OS string)
CargoName(st) == IF "cargo" \in DOMAIN st.frames[1].lvl THEN st.frames[1].lvl.cargo ELSE ""
Step(st0, e) ==
  \* (the `--` marker is not an item: the word after a leading `--` is still the first one)
  LET st == [st0 EXCEPT !.cargo = IF @ = "fresh" /\ (st0.posOnly \/ e.t # "dd") THEN "no" ELSE @] IN
  IF st0.ambig THEN st                        \* tokenising stopped at the ambiguous item
  \* the very first item, when it is the cargo subcommand's name, is dropped
  ELSE IF st0.cargo = "fresh" /\ CargoName(st0) # "" /\ (st0.posOnly \/ e.t = "word") /\ e.txt = CargoName(st0)
       THEN [st0 EXCEPT !.cargo = "skipped"]
  ELSE IF st.posOnly THEN PushPos(st, e.txt, TRUE)
  ELSE IF st.pending # ""
       THEN IF e.t = "word" THEN FeedArg([st EXCEPT !.pending = ""], st.pending, e.s)
            ELSE Plain(Kill([st EXCEPT !.pending = ""], "noarg"), e)
       ELSE Plain(st, e)

RECURSIVE Run(_, _)
Run(st, line) == IF line = <<>> THEN st ELSE Run(Step(st, Head(line)), Tail(line))

(* ------------------------------------------------------------------ Finish *)
\* an item may name several variables: the first one that is set counts
HasEnv2(it) == "env2" \in DOMAIN it /\ it.env2 # ""
EnvOf(envv, it) == IF it.env = "" THEN "UNSET"
                   ELSE IF envv[it.env] # "UNSET" \/ ~HasEnv2(it) THEN envv[it.env] ELSE envv[it.env2]

\* value of one named item from its occurrences (environment only when absent from the line)
HasGFlag(it) == "gflag" \in DOMAIN it /\ it.gflag
NamedVal(f, it, envv) ==
  LET occ0 == f.acc[it.id]
      ev   == EnvOf(envv, it)
      \* `catch` (on optional/many/some): a value that fails conversion or the guard counts as absence; one
      \* that came from the environment leaves nothing behind, a typed one stays on the line unclaimed
      catches == it.kind = "arg" /\ it.catch /\ it.arity \in {"opt", "many", "some"}
      occ  == IF occ0 = <<>> /\ ev # "UNSET" /\ ~(catches /\ BadValue(it, ev))
              THEN <<(IF it.kind = "arg" THEN ev ELSE "U")>> ELSE occ0
      n    == Len(occ)
      Fail(k) == IF it.kind = "arg" /\ ConvBad(it.vt, occ[k]) THEN "conv"
                 ELSE IF it.kind = "arg" /\ it.guard /\ occ[k] = GuardBad THEN "guard" ELSE ""
      \* a single-use item only ever looks at its first occurrence, a repeated one at all of them
      look == IF SingleUse(it) THEN (IF n >= 1 THEN {1} ELSE {}) ELSE DOMAIN occ
      bad  == {k \in look : Fail(k) # ""}
      Cv(w) == IF it.kind # "arg" THEN "U" ELSE IF it.vt = "int" THEN ToInt(w) ELSE w
      vs   == [k \in DOMAIN occ |-> Cv(occ[k])]
      Miss == [ok |-> FALSE, why |-> [k |-> "missing", id |-> it.id]]
      Many == [ok |-> FALSE, why |-> [k |-> "toomany", id |-> it.id]] IN
  IF it.kind = "switch" THEN (IF Len(occ0) > 1 THEN Many
                             \* a validation that refuses the switch: fails whenever it is on (typed or from its variable)
                             ELSE IF n >= 1 /\ HasGFlag(it) THEN [ok |-> FALSE, why |-> [k |-> "guard", id |-> it.id, w |-> "", o |-> 1,
                                                                                    fromenv |-> (occ0 = <<>>)]]
                             ELSE [ok |-> TRUE, v |-> (n >= 1)])
  ELSE IF bad # {} /\ catches THEN [ok |-> FALSE, why |-> [k |-> "unexpected", id |-> it.id, caught |-> TRUE]]
  ELSE IF bad # {}
       THEN LET k == CHOOSE k \in bad : \A j \in bad : k <= j IN
            [ok |-> FALSE, why |-> [k |-> Fail(k), id |-> it.id, w |-> occ[k], o |-> k,
                                    fromenv |-> (occ0 = <<>>)]]
  ELSE IF SingleUse(it) /\ n > 1 THEN Many
  ELSE CASE it.arity = "one"   -> IF n = 1 THEN [ok |-> TRUE, v |-> vs[1]] ELSE Miss
         [] it.arity = "opt"   -> [ok |-> TRUE, v |-> IF n = 0 THEN "NONE" ELSE [some |-> vs[1]]]
         [] it.arity \in {"fallback", "fallback_with"} ->
              [ok |-> TRUE, v |-> IF n = 0 THEN (IF it.kind # "arg" THEN "U"
                                                 ELSE IF it.vt = "int" THEN FallbackInt ELSE FallbackStr)
                                           ELSE vs[1]]
         [] it.arity = "many"  -> [ok |-> TRUE, v |-> vs]
         [] it.arity = "some"  -> IF n = 0 THEN Miss ELSE [ok |-> TRUE, v |-> vs]
         [] it.arity = "count" -> [ok |-> TRUE, v |-> [count |-> n]]
         [] it.arity = "last"  -> IF n = 0 THEN Miss ELSE [ok |-> TRUE, v |-> vs[n]]

\* one word for positional p from ws: got | absent | final
Take(p, ws) ==
  IF ws = <<>> THEN [st |-> "absent", rest |-> ws]
  ELSE LET h == Head(ws) IN
       IF p.strict = "strict" /\ ~h.after THEN [st |-> "final", rest |-> ws]
       ELSE IF p.strict = "non_strict" /\ h.after THEN [st |-> "absent", rest |-> ws]
       ELSE IF ConvBad(p.vt, h.w) THEN [st |-> "conv", w |-> h.w, rest |-> ws]
       ELSE [st |-> "got", w |-> (IF p.vt = "int" THEN ToInt(h.w) ELSE h.w), rest |-> Tail(ws)]
RECURSIVE TakeAll(_, _, _)
TakeAll(p, ws, got) == LET r == Take(p, ws) IN
  IF r.st = "got" THEN TakeAll(p, r.rest, Append(got, r.w))
  ELSE [st |-> r.st, got |-> got, rest |-> r.rest, w |-> IF r.st = "conv" THEN r.w ELSE ""]
RECURSIVE AssignPos(_, _, _)
AssignPos(ps, ws, vals) ==
  IF ps = <<>> THEN IF ws = <<>> THEN [ok |-> TRUE, vals |-> vals]
                    ELSE [ok |-> FALSE, why |-> [k |-> "surplus"]]
  ELSE LET p == Head(ps) IN
    IF p.arity \in {"one", "opt", "fallback", "fallback_with"} THEN
       LET r == Take(p, ws)
           dflt == IF p.vt = "int" THEN FallbackInt ELSE FallbackStr IN
       IF r.st = "final" THEN [ok |-> FALSE, why |-> [k |-> "strict", id |-> p.id]]
       ELSE IF r.st = "conv" THEN [ok |-> FALSE, why |-> [k |-> "conv", id |-> p.id, w |-> r.w]]
       ELSE IF r.st = "absent"
            THEN (IF p.arity = "one" THEN [ok |-> FALSE, why |-> [k |-> "missing", id |-> p.id]]
                  \* a defaulted positional that finds no word of its own leaves every word where it is
                  ELSE AssignPos(Tail(ps), r.rest, Append(vals, IF p.arity = "opt" THEN "NONE" ELSE dflt)))
       ELSE AssignPos(Tail(ps), r.rest, Append(vals, IF p.arity = "opt" THEN [some |-> r.w] ELSE r.w))
    ELSE LET r == TakeAll(p, ws, <<>>) IN
       IF r.st = "final" THEN [ok |-> FALSE, why |-> [k |-> "strict", id |-> p.id]]
       ELSE IF r.st = "conv" THEN [ok |-> FALSE, why |-> [k |-> "conv", id |-> p.id, w |-> r.w]]
       ELSE IF p.arity \in {"some", "last"} /\ r.got = <<>> THEN [ok |-> FALSE, why |-> [k |-> "missing", id |-> p.id]]
       \* (`last`: every word the positional can take is taken, the value is the last one)
       ELSE AssignPos(Tail(ps), r.rest, Append(vals, IF p.arity = "last" THEN r.got[Len(r.got)] ELSE r.got))

\* batteries: two neighbouring repeated flags read as ONE number, offset + #first - #second kept within [min, max]
\* (`verbose_and_quiet_by_number`), or as that number's entry of a table (`verbose_by_slice`: the index is the value here)
HasBattery(it) == "battery" \in DOMAIN it /\ it.battery.k \in {"vq", "slice"}
Clamp(x, lo, hi) == IF x < lo THEN lo ELSE IF x > hi THEN hi ELSE x
RECURSIVE Batteries(_, _, _)
Batteries(named, vals, j) ==
  IF j > Len(named) THEN <<>>
  ELSE IF HasBattery(named[j])
       THEN <<Clamp(named[j].battery.offset + Len(vals[j]) - Len(vals[j + 1]), named[j].battery.min, named[j].battery.max)>>
            \o Batteries(named, vals, j + 2)
       ELSE <<vals[j]>> \o Batteries(named, vals, j + 1)

\* fields in declaration order; the first failing field decides (its reason is reported)
RECURSIVE FrameVal(_, _, _)
FrameVal(frames, k, envv) ==
  LET f  == frames[k]
      nv == [j \in DOMAIN f.lvl.named |-> NamedVal(f, f.lvl.named[j], envv)]
      badn == {j \in DOMAIN nv : ~nv[j].ok} IN
  IF badn # {} THEN [ok |-> FALSE, why |-> nv[CHOOSE j \in badn : \A i \in badn : j <= i].why @@ [f |-> k]]
  ELSE LET base == Batteries(f.lvl.named, [j \in DOMAIN nv |-> nv[j].v], 1) IN
    CASE f.lvl.tail.kind = "none" -> IF f.pos = <<>> THEN [ok |-> TRUE, v |-> [t |-> base]]
                                      ELSE [ok |-> FALSE, why |-> [k |-> "surplus"]]
      [] f.lvl.tail.kind = "pos"  -> LET r == AssignPos(f.lvl.tail.items, f.pos, <<>>) IN
                                      IF r.ok THEN [ok |-> TRUE, v |-> [t |-> base \o r.vals]] ELSE r
      [] f.lvl.tail.kind = "cmd" /\ PrePos(f.lvl) # <<>> ->
           \* the leading positional items first, then the command (none of these levels has a positional alternative)
           LET np == Len(PrePos(f.lvl))
               r0 == AssignPos(PrePos(f.lvl), SubSeq(f.pos, 1, IF Len(f.pos) < np THEN Len(f.pos) ELSE np), <<>>) IN
           IF ~r0.ok THEN r0
           ELSE IF Len(f.pos) > np THEN [ok |-> FALSE, why |-> [k |-> "surplus"]]
           ELSE IF k < Len(frames)
           THEN LET c == FrameVal(frames, k + 1, envv) IN
                IF ~c.ok THEN c
                ELSE LET cv == [v |-> f.child - 1, x |-> c.v] IN
                     [ok |-> TRUE, v |-> [t |-> Append(base \o r0.vals, IF f.lvl.tail.optional THEN [some |-> cv] ELSE cv)]]
           ELSE IF f.lvl.tail.optional THEN [ok |-> TRUE, v |-> [t |-> Append(base \o r0.vals, "NONE")]]
           ELSE [ok |-> FALSE, why |-> [k |-> "missing", id |-> "command"]]
      [] f.lvl.tail.kind = "cmd"  ->
           IF f.pos # <<>> /\ (f.lvl.tail.else_pos = <<>> \/ k < Len(frames)) THEN [ok |-> FALSE, why |-> [k |-> "surplus"]]
           ELSE IF k = Len(frames) /\ f.lvl.tail.else_pos # <<>> /\
                   (f.pos # <<>> \/ AssignPos(f.lvl.tail.else_pos, <<>>, <<>>).ok)
           THEN \* the positional alternative
                LET r == AssignPos(f.lvl.tail.else_pos, f.pos, <<>>) IN
                IF ~r.ok THEN r
                ELSE LET pv == [v |-> Len(f.lvl.tail.cmds), x |-> r.vals[1]] IN
                     [ok |-> TRUE, v |-> [t |-> Append(base, IF f.lvl.tail.optional THEN [some |-> pv] ELSE pv)]]
           ELSE IF k < Len(frames)
           THEN LET c == FrameVal(frames, k + 1, envv) IN
                IF ~c.ok THEN c
                ELSE LET cv == [v |-> f.child - 1, x |-> c.v] IN
                     [ok |-> TRUE, v |-> [t |-> Append(base, IF f.lvl.tail.optional THEN [some |-> cv] ELSE cv)]]
           ELSE IF f.lvl.tail.optional THEN [ok |-> TRUE, v |-> [t |-> Append(base, "NONE")]]
           ELSE [ok |-> FALSE, why |-> [k |-> "missing", id |-> "command"]]

Finish(st, envv) == LET r == FrameVal(st.frames, 1, envv) IN
  IF r.ok THEN [class |-> "ok", value |-> r.v] ELSE [class |-> "stderr", why |-> r.why]

Outcome(st, envv) ==
  IF st.ambig THEN [class |-> "stderr", why |-> [k |-> "ambiguity"]]
  ELSE IF st.helpAt.set THEN [class |-> "stdout", kind |-> "help", path |-> st.helpAt.path]
  ELSE IF st.verAt.set THEN [class |-> "stdout", kind |-> "version", vtag |-> st.verAt.vtag]
  ELSE IF st.dead # "" THEN [class |-> "stderr", why |-> [k |-> st.dead]]
  ELSE IF st.pending # "" THEN [class |-> "stderr", why |-> [k |-> "noarg"]]
  ELSE LET n == Len(st.frames)  f == st.frames[n]
           empty == f.pos = <<>> /\ (\A i \in DOMAIN f.acc : f.acc[i] = <<>>) /\ ~(n = 1 /\ st.cargo = "skipped") IN
       \* fallback_to_usage: a level that was given no arguments at all and cannot succeed on
       \* nothing prints its help instead of failing
       IF f.lvl.ftu /\ empty /\ ~FrameVal(st.frames, n, envv).ok
       THEN [class |-> "stdout", kind |-> "help", path |-> st.path]
       ELSE Finish(st, envv)

\* C18: help shows the state of the variable an item falls back to - `[env:NAME: N/A]` / `[env:NAME = "value"]` for an
\* argument, `[env:NAME: not set]` / `[env:NAME: set]` for a flag (only the first variable of an item is shown)
HelpEnvLines(lvl, envv) ==
  {"[env:" \o it.env \o (IF it.kind = "arg" THEN (IF envv[it.env] = "UNSET" THEN ": N/A]" ELSE " = ")
                           ELSE (IF envv[it.env] = "UNSET" THEN ": not set]" ELSE ": set]"))
   : it \in {x \in RangeOf(lvl.named) : x.env # "" /\ ~x.hidden /\ NamesOf(x) # {}}}

(* ------------------------------------------------------------------ alphabets *)
\* what a user can type against def; def.alpha tunes the richness per family:
\*   words  : Seq(STRING)   plain words / values      spells : subset of {"sep","eq","glued"}
\*   extras : subset of {"dd","help","ver","unk"}      clusters : BOOLEAN
LeafItems(def, it) ==
  LET A == def.alpha  W == RangeOf(A.eqvals) IN
  IF it.kind # "arg"
  THEN {[t |-> "name", s |-> n, txt |-> n] : n \in NamesOf(it)}
       \* a value attached to a name that takes none (`--verbose=x`): never a sentence
       \cup (IF "flageq" \in DOMAIN A /\ A.flageq
             THEN {[t |-> "eq", s |-> n, v |-> A.eqvals[1], txt |-> n \o "=" \o A.eqvals[1]] : n \in NamesOf(it)} ELSE {})
  ELSE (IF "sep" \in RangeOf(A.spells)
        THEN {[t |-> "name", s |-> n, txt |-> n] : n \in NamesOf(it)} ELSE {})
       \cup (IF "eq" \in RangeOf(A.spells)
             THEN {[t |-> "eq", s |-> n, v |-> w, txt |-> n \o "=" \o w] : n \in NamesOf(it), w \in W} ELSE {})
       \cup (IF "glued" \in RangeOf(A.spells)
             THEN {[t |-> "glued", s |-> n, v |-> w, txt |-> n \o w] : n \in RangeOf(it.shorts),
                                                                       w \in W \ RangeOf(A.noglue)} ELSE {})

\* short-option clusters of one level: two flags, or a flag followed by a short argument whose
\* value is attached (-abVALUE) or is the next item (-ab VALUE)
ClusterItems(def, lvl) ==
  LET F == UNION {{<<lvl.named[k].shorts[j], lvl.named[k].letters[j]>> : j \in DOMAIN lvl.named[k].shorts}
                  : k \in {k \in DOMAIN lvl.named : lvl.named[k].kind # "arg"}}
      A == UNION {{<<lvl.named[k].shorts[j], lvl.named[k].letters[j]>> : j \in DOMAIN lvl.named[k].shorts}
                  : k \in {k \in DOMAIN lvl.named : lvl.named[k].kind = "arg"}}
      W == RangeOf(def.alpha.eqvals) \ RangeOf(def.alpha.noglue)
      \* flag sequences: pairs, and triples when the family asks for them
      FS2 == {<<a, b>> : a \in F, b \in F}
      FS3 == IF def.alpha.clusters3 THEN {<<a, b, c>> : a \in F, b \in F, c \in F} ELSE {}
      FS1 == {<<a>> : a \in F}
      Names(fs) == [i \in DOMAIN fs |-> fs[i][1]]
      Txt(fs) == IF Len(fs) = 1 THEN fs[1][2] ELSE IF Len(fs) = 2 THEN fs[1][2] \o fs[2][2]
                 ELSE fs[1][2] \o fs[2][2] \o fs[3][2] IN
  {[t |-> "cluster", s |-> "", v |-> "", ss |-> Names(fs), last |-> "", hasv |-> FALSE,
    txt |-> "-" \o Txt(fs)] : fs \in FS2 \cup FS3}
  \* a value attached with `=` to a bundle that ends in a flag (`-vd=x`): never a sentence
  \cup (IF "flageq" \in DOMAIN def.alpha /\ def.alpha.flageq
        THEN {[t |-> "cluster", s |-> "", v |-> def.alpha.eqvals[1], ss |-> Names(fs), last |-> b[1], hasv |-> TRUE,
               txt |-> "-" \o Txt(fs) \o b[2] \o "=" \o def.alpha.eqvals[1]] : fs \in FS1, b \in F}
        ELSE {})
  \* the tokeniser knows the short names of the ROOT's help and version flags as flags too - the version name
  \* whether or not a version is configured: `-aV` is `-a -V`, never a word
  \cup {[t |-> "cluster", s |-> "", v |-> "", ss |-> IF front THEN <<x[1]>> \o Names(fs) ELSE Names(fs) \o <<x[1]>>,
         last |-> "", hasv |-> FALSE, txt |-> IF front THEN "-" \o x[2] \o Txt(fs) ELSE "-" \o Txt(fs) \o x[2]]
           : fs \in FS1, front \in BOOLEAN,
             x \in (IF "vershort" \in RangeOf(def.alpha.extras) /\ "-V" \in RangeOf(def.ver_names) THEN {<<"-V", "V">>} ELSE {})
                \cup (IF "helpshort" \in RangeOf(def.alpha.extras) /\ "-h" \in RangeOf(def.help_names) THEN {<<"-h", "h">>} ELSE {})}
  \cup {[t |-> "cluster", s |-> "", v |-> w, ss |-> Names(fs), last |-> o[1], hasv |-> TRUE,
         txt |-> "-" \o Txt(fs) \o o[2] \o w] : fs \in FS1 \cup (IF def.alpha.clusters3 THEN FS2 ELSE {}), o \in A, w \in W}
  \cup {[t |-> "cluster", s |-> "", v |-> "", ss |-> Names(fs), last |-> o[1], hasv |-> FALSE,
         txt |-> "-" \o Txt(fs) \o o[2]] : fs \in FS1 \cup (IF def.alpha.clusters3 THEN FS2 ELSE {}), o \in A}

RECURSIVE CmdNames(_)
CmdNames(lvl) == IF lvl.tail.kind = "cmd"
                 THEN UNION {CmdWords(lvl.tail.cmds[k]) \cup CmdNames(lvl.tail.cmds[k].level) : k \in DOMAIN lvl.tail.cmds}
                 ELSE {}

Alphabet(def) ==
  LET A == def.alpha IN
  UNION {UNION {LeafItems(def, l.named[k]) : k \in DOMAIN l.named} : l \in AllLevels(def)}
  \cup (IF A.clusters THEN UNION {ClusterItems(def, l) : l \in AllLevels(def)} ELSE {})
  \cup {[t |-> "word", s |-> w, txt |-> w] : w \in RangeOf(A.words) \cup CmdNames(def)}
  \cup {[t |-> (CASE x \in {"helpshort", "althelp"} -> "help" [] x \in {"vershort", "altver"} -> "ver"
                  [] x \in {"unkshort", "near"} -> "unk" [] OTHER -> x),
         s |-> "", txt |-> (CASE x = "dd" -> "--" [] x = "help" -> "--help" [] x = "helpshort" -> "-h"
                              [] x = "ver" -> "--version" [] x = "vershort" -> "-V"
                              [] x = "althelp" -> "--aide" [] x = "altver" -> "--vers"
                              \* an unknown flag that is one slip away from a declared name (given by the definition)
                              [] x = "near" -> A.near
                              [] x = "unk" -> "--zz" [] x = "unkshort" -> "-Z")] : x \in RangeOf(A.extras)}

(* ------------------------------------------------------------------ state machine *)
VARIABLES def, env, line, st
vars == <<def, env, line, st>>

EnvVars(d) == UNION {{l.named[k].env : k \in DOMAIN l.named} \cup {l.named[k].env2 : k \in {k \in DOMAIN l.named : HasEnv2(l.named[k])}}
                     : l \in AllLevels(d)} \ {""}
EnvChoices(d) == [EnvVars(d) -> RangeOf(d.alpha.envvals)]

CONSTANT Defs
Init == /\ def \in Defs /\ env \in EnvChoices(def) /\ line = <<>> /\ st = InitSt(def)
Type(e) == /\ line' = Append(line, e) /\ st' = Step(st, e) /\ UNCHANGED <<def, env>>
Next == /\ Len(line) < def.alpha.maxlen /\ \E e \in Alphabet(def) : Type(e)
Spec == Init /\ [][Next]_vars

Out == Outcome(st, env)

(* ------------------------------------------------------------------ properties of the design *)
TypeOK == /\ Out.class \in {"ok", "stderr", "stdout"}
          /\ st.dead # "" => st.frozen
\* the acceptor is a function of the line: folding Step over the history gives the state
Functional == st = Run(InitSt(def), line)
\* C10: once asked, help stays the outcome and keeps describing the same command
HelpWins == (st.helpAt.set /\ ~st.ambig) => Out.class = "stdout" /\ Out.kind = "help" /\ Out.path = st.helpAt.path
HelpSticky == [][st.helpAt.set => st'.helpAt = st.helpAt]_vars
\* C05: an item nobody accepts can never be repaired by typing more (help/version aside)
NoResurrection == [][(st.dead # "" \/ st.ambig) => Outcome(st', env).class # "ok"]_vars
\* C09: after `--` everything is positional data at the level where it was typed
DashDash == [][(st.posOnly /\ ~st.ambig) => /\ st'.posOnly /\ st'.path = st.path /\ st'.helpAt = st.helpAt
                             /\ st'.verAt = st.verAt /\ st'.dead = st.dead
                             \* (the positional parser that takes it may be the cargo subcommand's name, a `literal`)
                             /\ \/ st.cargo = "fresh" /\ st'.cargo = "skipped" /\ Cur(st').pos = Cur(st).pos
                                \/ /\ Len(Cur(st').pos) = Len(Cur(st).pos) + 1
                                   /\ Cur(st').pos[Len(Cur(st').pos)].after]_vars
\* C08: entering a subcommand never changes what enclosing levels collected
ScopeAfterCommand == [][\A k \in 1..Len(st.frames) - 1 :
                           st'.frames[k].acc = st.frames[k].acc /\ st'.frames[k].pos = st.frames[k].pos]_vars
\* C05: every typed item is stored exactly once (in one accumulator, as a command name, as
\* the `--` marker, or as the name of the argument awaiting its value) or the line is dead
RECURSIVE SumOver(_, _)
SumOver(f, S) == IF S = {} THEN 0 ELSE LET x == CHOOSE x \in S : TRUE IN f[x] + SumOver(f, S \ {x})
Accounted(s) ==
  SumOver([k \in DOMAIN s.frames |->
            Len(s.frames[k].pos)
            + SumOver([i \in DOMAIN s.frames[k].acc |-> Len(s.frames[k].acc[i])], DOMAIN s.frames[k].acc)],
          DOMAIN s.frames)
  + Len(s.path) + (IF s.posOnly THEN 1 ELSE 0) + (IF s.cargo = "skipped" THEN 1 ELSE 0)
Held(s) == Accounted(s) + (IF s.pending # "" THEN 1 ELSE 0)
\* (the help / version letters of a cluster are requests, not occurrences)
Entries(e) == IF e.t = "cluster" THEN Len(SelectSeq(e.ss, LAMBDA n : n \notin {"-h", "-V"})) + (IF e.last = "" THEN 0 ELSE 1) ELSE 1
ExactlyOnce == [][LET e == line'[Len(line')] IN
                    (st'.dead = "" /\ ~st'.ambig /\ e.t \notin {"help", "ver"}) =>
                       Held(st') = Held(st) + (IF st.posOnly THEN 1
                                               ELSE IF st.pending # "" /\ e.t = "word" THEN 0
                                               ELSE Entries(e))]_vars
\* ... and a successful outcome delivers every stored occurrence: single-use items hold at most one
AllDelivered == Out.class = "ok" =>
                  /\ st.dead = "" /\ st.pending = ""
                  /\ \A k \in DOMAIN st.frames : \A j \in DOMAIN st.frames[k].lvl.named :
                        LET it == st.frames[k].lvl.named[j] IN
                        SingleUse(it) => Len(st.frames[k].acc[it.id]) <= 1
(* ------------------------------------------------------------------ C03: order of named options *)
\* role of item k of a line in its context (what the acceptor does with it)
Role(d, l, k) ==
  LET s == Run(InitSt(d), SubSeq(l, 1, k - 1))  e == l[k] IN
  IF s.posOnly THEN [r |-> "data"]
  ELSE IF s.pending # "" THEN (IF e.t = "word" THEN [r |-> "value"] ELSE [r |-> "other"])
  ELSE IF e.t \in {"name", "eq", "glued"} THEN
         LET own == Owner(Cur(s).lvl, e.s) IN
         IF own = {} THEN [r |-> "other"]
         ELSE LET it == Cur(s).lvl.named[CHOOSE j \in own : TRUE] IN
              IF e.t = "name" /\ it.kind = "arg"
              THEN (IF it.adj THEN [r |-> "other"] ELSE [r |-> "head", id |-> it.id, depth |-> Len(s.frames)])
              ELSE IF e.t # "name" /\ it.kind # "arg" THEN [r |-> "other"]
              ELSE [r |-> "named", id |-> it.id, depth |-> Len(s.frames)]
  ELSE IF e.t = "word" /\ Cur(s).lvl.tail.kind = "pos" THEN [r |-> "pos", depth |-> Len(s.frames)]
  ELSE [r |-> "other"]
\* a whole occurrence starting at k: [len, kind, id, depth] (len 0 = not something C03 permutes)
GroupAt(d, l, k) ==
  IF k > Len(l) THEN [len |-> 0] ELSE
  LET r == Role(d, l, k) IN
  CASE r.r = "named" -> [len |-> 1, kind |-> "named", id |-> r.id, depth |-> r.depth]
    [] r.r = "pos"   -> [len |-> 1, kind |-> "pos", id |-> "", depth |-> r.depth]
    [] r.r = "head"  -> IF k + 1 <= Len(l) /\ Role(d, l, k + 1).r = "value"
                        THEN [len |-> 2, kind |-> "named", id |-> r.id, depth |-> r.depth]
                        ELSE [len |-> 0]
    [] OTHER -> [len |-> 0]
SwapAt(l, k, a, b) == SubSeq(l, 1, k - 1) \o SubSeq(l, k + a, k + a + b - 1) \o SubSeq(l, k, k + a - 1)
                      \o SubSeq(l, k + a + b, Len(l))
\* exchanging two neighbouring occurrences that feed different fields (a named one with a named
\* one, or a named one with a positional word) of the same level never changes the outcome
SwapCommutes ==
  \A k \in 1..Len(line) :
    LET A == GroupAt(def, line, k) IN
    A.len > 0 =>
      LET B == GroupAt(def, line, k + A.len) IN
      (B.len > 0 /\ A.depth = B.depth /\ ~(A.kind = "pos" /\ B.kind = "pos")
         /\ ~(A.kind = "named" /\ B.kind = "named" /\ A.id = B.id)) =>
        Outcome(Run(InitSt(def), SwapAt(line, k, A.len, B.len)), env) = Out
(* ------------------------------------------------------------------ C02: equivalent spellings *)
\* every other way of writing the attached occurrence at position k (other name of the same item,
\* `=` or glued form, or name and value as two items when the value is an ordinary word)
Respellings(d, l, k) ==
  LET e == l[k]
      s == Run(InitSt(d), SubSeq(l, 1, k - 1))
      own == IF s.posOnly \/ s.pending # "" THEN {} ELSE Owner(Cur(s).lvl, e.s) IN
  IF e.t \notin {"eq", "glued"} \/ own = {} THEN {}
  ELSE LET it == Cur(s).lvl.named[CHOOSE j \in own : TRUE]
           pre == SubSeq(l, 1, k - 1)  post == SubSeq(l, k + 1, Len(l)) IN
       IF it.kind # "arg" THEN {}
       ELSE {pre \o <<[t |-> "eq", s |-> n, v |-> e.v, txt |-> n \o "=" \o e.v]>> \o post : n \in NamesOf(it)}
            \cup {pre \o <<[t |-> "glued", s |-> n, v |-> e.v, txt |-> n \o e.v]>> \o post :
                    n \in (IF e.v \in RangeOf(d.alpha.noglue) THEN {} ELSE RangeOf(it.shorts))}
            \cup (IF it.adj \/ e.v \notin RangeOf(d.alpha.words) THEN {}
                  ELSE {pre \o <<[t |-> "name", s |-> n, txt |-> n], [t |-> "word", s |-> e.v, txt |-> e.v]>> \o post
                          : n \in NamesOf(it)})
RespellStutters ==
  \A k \in 1..Len(line) : \A l2 \in Respellings(def, line, k) :
      Outcome(Run(InitSt(def), l2), env) = Out
(* ------------------------------------------------------------------ C14: dynamic completion *)
\* a partially typed last item: fresh "", "-", "--prefix" (cs = characters after the dashes, possibly
\* none), an exact short name, or the beginning of a word (command name)
RECURSIVE ConcatAll(_)
ConcatAll(cs) == IF cs = <<>> THEN "" ELSE Head(cs) \o ConcatAll(Tail(cs))
PartialText(p) == CASE p.k = "fresh" -> "" [] p.k = "dash" -> "-" [] p.k = "long" -> "--" \o ConcatAll(p.cs)
                    [] p.k = "short" -> p.s [] p.k = "word" -> ConcatAll(p.cs)
Pref(it) == IF it.longs # <<>> THEN it.longs[1] ELSE it.shorts[1]      \* the spelling completion inserts
NameMatches(it, p) == CASE p.k \in {"fresh", "dash"} -> TRUE
                        [] p.k = "long"  -> it.longs # <<>> /\ IsPrefix(p.cs, it.lchars[1])
                        [] p.k = "short" -> it.shorts # <<>> /\ it.shorts[1] = p.s
                        [] OTHER -> FALSE
CmdMatches(c, p) == \/ p.k = "fresh"
                    \/ p.k = "word" /\ (IsPrefix(p.cs, c.nchars[1]) \/ (c.shorts # <<>> /\ p.cs = <<c.shorts[1]>>))
LevelCmds(lvl) == IF lvl.tail.kind = "cmd" THEN RangeOf(lvl.tail.cmds) ELSE {}
\* a command under `hide` parses like any other; it is not listed, documented or offered
CmdHidden(c) == "hidden" \in DOMAIN c /\ c.hidden
VisibleCmds(lvl) == {c \in LevelCmds(lvl) : ~CmdHidden(c)}
\* upper bound: visible names of the active or an enclosing level that match what was typed, values of
\* the user's completer for the argument being typed, and the `--` hint of strict positionals
MayOffer(s, p) ==
  LET lvls == {s.frames[k].lvl : k \in DOMAIN s.frames} IN
  \* after `--` everything typed is data: no name, no subcommand and no `--` is a candidate any more
  IF s.posOnly THEN {"--"} ELSE
  UNION {{Pref(l.named[k]) : k \in {k \in DOMAIN l.named : ~l.named[k].hidden /\ NameMatches(l.named[k], p)}} : l \in lvls}
  \cup UNION {{c.names[1] : c \in {c \in VisibleCmds(l) : CmdMatches(c, p)}} : l \in lvls}
  \cup (IF s.pending # "" THEN RangeOf(ItemById(Cur(s).lvl, s.pending).completer) ELSE {})
  \cup {"--"}
\* lower bound, for a freshly typed prefix: every visible name of the active level that extends it and
\* whose item has not already been given
MustOffer(s, p) ==
  IF s.pending # "" \/ s.posOnly THEN {}
  ELSE IF p.k = "word" THEN   \* the beginning of a subcommand name of the active level
       {c.names[1] : c \in {c \in VisibleCmds(Cur(s).lvl) : IsPrefix(p.cs, c.nchars[1])}}
  ELSE IF p.k \notin {"fresh", "dash", "long"} THEN {}
  ELSE LET f == Cur(s) IN
       (IF p.k = "fresh" THEN {c.names[1] : c \in VisibleCmds(f.lvl)} ELSE {}) \cup
       {Pref(f.lvl.named[k]) : k \in {k \in DOMAIN f.lvl.named :
            /\ ~f.lvl.named[k].hidden /\ NameMatches(f.lvl.named[k], p)
            /\ ~(SingleUse(f.lvl.named[k]) /\ f.acc[f.lvl.named[k].id] # <<>>)}}
\* after `--` whatever is being typed is data for the next positional item with room: its metavariable is the hint
\* completion must show, however the typed word looks ("" = the specification makes no statement)
RECURSIVE NextSlot(_, _)
NextSlot(items, n) == IF items = <<>> THEN ""
                      ELSE IF Head(items).arity \in {"many", "some"} \/ n = 0 THEN Head(items).metavar
                      ELSE NextSlot(Tail(items), n - 1)
PosHint(s) ==
  LET f == Cur(s) IN
  IF ~s.posOnly \/ f.lvl.tail.kind # "pos" THEN ""
  ELSE LET items == f.lvl.tail.items IN
       IF /\ \A i \in DOMAIN items : items[i].strict \in {"any", "strict"} /\ ~items[i].hidden /\ items[i].vt # "int"
                                      /\ ("completer" \notin DOMAIN items[i] \/ items[i].completer = <<>>)
          /\ ((\A i \in DOMAIN items : items[i].strict = "any") \/ (\A j \in DOMAIN f.pos : f.pos[j].after))
       THEN NextSlot(items, Len(f.pos)) ELSE ""
\* partial items worth asking about for a definition
Partials(d) ==
  {[k |-> "fresh"], [k |-> "dash"], [k |-> "long", cs |-> <<>>]}
  \cup UNION {UNION {{[k |-> "long", cs |-> SubSeq(l.named[j].lchars[1], 1, n)] : n \in {1, Len(l.named[j].lchars[1]) - 1, Len(l.named[j].lchars[1])} \ {0}}
                      : j \in {j \in DOMAIN l.named : l.named[j].longs # <<>>}} : l \in AllLevels(d)}
  \cup UNION {{[k |-> "short", s |-> l.named[j].shorts[1]] : j \in {j \in DOMAIN l.named : l.named[j].shorts # <<>>}} : l \in AllLevels(d)}
  \cup UNION {UNION {{[k |-> "word", cs |-> SubSeq(c.nchars[1], 1, n)] : n \in {1, Len(c.nchars[1])}} : c \in LevelCmds(l)} : l \in AllLevels(d)}
\* states in which completion is asked: a line that can still become a sentence
Viable(s) == /\ s.dead = "" /\ ~s.helpAt.set /\ ~s.verAt.set /\ ~s.outside /\ ~s.ambig /\ (~s.frozen \/ s.posOnly)
             /\ \A k \in DOMAIN s.frames : \A j \in DOMAIN s.frames[k].lvl.named :
                   LET it == s.frames[k].lvl.named[j]  occ == s.frames[k].acc[it.id] IN
                   /\ SingleUse(it) => Len(occ) <= 1
                   /\ it.kind = "arg" => \A i \in DOMAIN occ : ~BadValue(it, occ[i])
\* the complete name of an option an enclosing level declares, typed to the right of a subcommand name, is that
\* level's option (outside the quantifier like every such line), not a partial item of the active level
ForeignLong(s, cs) == \E k \in 1..(Len(s.frames) - 1) : \E j \in DOMAIN s.frames[k].lvl.named :
                         \E i \in DOMAIN s.frames[k].lvl.named[j].lchars : s.frames[k].lvl.named[j].lchars[i] = cs
CompletionSandwich == \A p \in Partials(def) : MustOffer(st, p) \subseteq MayOffer(st, p)
=============================================================================
