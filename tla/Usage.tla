------------------------------- MODULE Usage -------------------------------
(***************************************************************************)
(* The usage line of one command level, computed from the definition alone *)
(* (C12: what `hide`, `hide_usage`, `custom_usage`, optional / repeated     *)
(* items, choices, strict positionals and subcommands look like in          *)
(* `Usage: ...`).                                                           *)
(*                                                                         *)
(* A transcription of the three steps bpaf performs:                        *)
(*   1. UMeta     - the shape a parser describes itself with (one case per  *)
(*                  combinator: required / optional / repeated items,       *)
(*                  sequences, choices, custom text, skipped parts);        *)
(*   2. UNorm     - the normal form: skipped parts vanish, brackets of       *)
(*                  nested optional / required parts collapse, only the      *)
(*                  first subcommand of a choice is kept, the `--` of strict *)
(*                  positionals is pulled in front of the first of them;     *)
(*   3. UText     - the text: `a b`, `(a | b)`, `[a]`, `a...`, `-- A`.       *)
(* All operator names start with U: the module is EXTENDed by HelpModel.    *)
(***************************************************************************)
EXTENDS Naturals, Sequences

UHas(r, f)  == f \in DOMAIN r
UStr(r, f)  == IF UHas(r, f) THEN r[f] ELSE ""
UFlag(r, f) == UHas(r, f) /\ r[f] = TRUE

(* ------------------------------------------------------------------ 1. shapes *)
USkip       == [k |-> "skip"]
UItem(t)    == [k |-> "item", t |-> t, cmd |-> FALSE]
UCmdItem    == [k |-> "item", t |-> "COMMAND ...", cmd |-> TRUE]
UAnd(xs)    == [k |-> "and", xs |-> xs]
UOr(xs)     == [k |-> "or", xs |-> xs]
UOpt(m)     == [k |-> "opt", m |-> m]
UReq(m)     == [k |-> "req", m |-> m]
UMany(m)    == [k |-> "many", m |-> m]
UCustom(m, t) == [k |-> "custom", m |-> m, t |-> t]
UStrict(m)  == [k |-> "strict", m |-> m]

\* the name an item is shown with in a usage line: its first short name, else its first long name
UName(it) == IF it.shorts # <<>> THEN it.shorts[1] ELSE it.longs[1]

\* `a.or_else(b)`: choices flatten, parts that describe nothing disappear
UAlts(m) == IF m.k = "or" THEN m.xs ELSE IF m.k = "skip" THEN <<>> ELSE <<m>>
RECURSIVE UOrAll(_)
UOrAll(ms) == IF ms = <<>> THEN <<>> ELSE UAlts(Head(ms)) \o UOrAll(Tail(ms))
UChoice(ms) == LET xs == UOrAll(ms) IN IF xs = <<>> THEN USkip ELSE IF Len(xs) = 1 THEN xs[1] ELSE UOr(xs)

\* `construct!(a, b, ..)`; without fields the harness builds `pure(..)`
USeq(ms) == IF ms = <<>> THEN USkip ELSE UAnd(ms)

\* repetition / default wrappers
UArity(it, m) ==
  LET a == UStr(it, "arity") IN
  CASE a \in {"", "one", "sw"} -> m
    [] a = "opt" -> UOpt(m)
    [] a = "many" -> IF UFlag(it, "via_collect") THEN UMany(UReq(m)) ELSE UMany(UOpt(m))
    [] a \in {"some", "collect", "last"} -> UMany(UReq(m))
    [] a \in {"count", "many_guard", "fallback_many"} -> UMany(UOpt(m))
    [] a \in {"fallback", "fallback_with", "fallback_with_err", "fallback_group"} -> UOpt(m)
    [] OTHER -> m
\* decorations: hide_usage (an empty custom text), custom_usage, hide
UDecor(it, m) ==
  LET m1 == IF UFlag(it, "hide_usage") THEN UCustom(m, "") ELSE m
      m2 == IF UStr(it, "custom_usage") # "" THEN UCustom(m1, it.custom_usage) ELSE m1 IN
  IF UFlag(it, "hidden") THEN USkip ELSE m2

\* a positional item (of a level's tail, or a member of a group)
UPosBase(it) == IF UStr(it, "lit") # "" THEN UItem(it.lit)
                ELSE IF UStr(it, "strict") = "strict" THEN UStrict(UItem(it.metavar)) ELSE UItem(it.metavar)
UPosMeta(it) == UDecor(it, UArity(it, UPosBase(it)))

RECURSIVE UMeta(_)
UMetaSeq(fs) == [i \in DOMAIN fs |-> UMeta(fs[i])]
UMeta(it) ==
  LET k == it.kind IN
  IF k = "switch" THEN UDecor(it, UOpt(UItem(UName(it))))
  ELSE LET base ==
    CASE k = "flag"    -> UOpt(UItem(UName(it)))
      [] k = "reqflag" -> UItem(UName(it))
      [] k = "arg"     -> UItem(UName(it) \o "=" \o it.metavar)
      [] k = "pos"     -> UPosBase(it)
      [] k = "any"     -> UItem(it.metavar)
      [] k = "lit"     -> UItem(it.lit)           \* a fixed word (`literal`) shows as itself
      [] k = "cmd"     -> UCmdItem
      [] k = "alt"     -> UChoice(UMetaSeq(it.branches))
      [] k = "branch"  -> IF Len(it.fields) = 1 THEN UMeta(it.fields[1]) ELSE USeq(UMetaSeq(it.fields))
      [] k = "adj" /\ UHas(it, "head") ->
            IF it.head.kind = "cmd" THEN UCmdItem
            ELSE USeq(<<UMeta(it.head)>> \o UMetaSeq(it.members))
      [] k \in {"seq", "adj"} -> USeq(UMetaSeq(it.fields))
      [] OTHER -> USkip                 \* pure, fail
    IN UDecor(it, UArity(it, base))

\* joined adjacent subcommands are the alternatives of one repeated choice, placed where the first one is declared
UJoinedAt(lvl, i) ==
  LET j == lvl.named[i].joined
      ix == {n \in DOMAIN lvl.named : UStr(lvl.named[n], "joined") = j}
      first == CHOOSE n \in ix : \A o \in ix : n <= o IN
  IF i # first THEN <<>>
  ELSE LET c == UChoice([n \in 1..Len(lvl.named) |-> IF n \in ix THEN UCmdItem ELSE USkip]) IN
       <<IF UStr(lvl.named[i], "arity") = "some" THEN UMany(UReq(c)) ELSE UMany(UOpt(c))>>
RECURSIVE UNamed(_, _)
UNamed(lvl, i) ==
  IF i > Len(lvl.named) THEN <<>>
  ELSE (IF UStr(lvl.named[i], "joined") # "" THEN UJoinedAt(lvl, i) ELSE <<UMeta(lvl.named[i])>>) \o UNamed(lvl, i + 1)

ULevelFields(lvl) ==
  LET named == UNamed(lvl, 1)
      t == lvl.tail IN
  IF t.kind = "pos" THEN named \o [i \in DOMAIN t.items |-> UPosMeta(t.items[i])]
  ELSE IF t.kind = "cmd"
  THEN LET ep == IF UHas(t, "else_pos") THEN t.else_pos ELSE <<>>
           c0 == UChoice([i \in DOMAIN t.cmds |-> IF UFlag(t.cmds[i], "hidden") THEN USkip ELSE UCmdItem] \o [i \in DOMAIN ep |-> UPosMeta(ep[i])])
           c  == IF UFlag(t, "optional") THEN UOpt(c0) ELSE c0 IN
       IF UStr(t, "grouped") # "" /\ named # <<>>
       THEN SubSeq(named, 1, Len(named) - 1) \o <<UAnd(<<named[Len(named)], c>>)>>
       ELSE named \o (IF UHas(t, "pre_pos") THEN [i \in DOMAIN t.pre_pos |-> UPosMeta(t.pre_pos[i])] ELSE <<>>) \o <<c>>
  ELSE named
ULevelMeta(lvl) == USeq(ULevelFields(lvl))

(* ------------------------------------------------------------------ 2. normal form *)
\* n \in {"pull", "push", "strip"}: where the `--` of a strict positional still has to go
UPush(n) == IF n = "pull" THEN "push" ELSE n
UIsCmd(m) == m.k = "item" /\ m.cmd
RECURSIVE UDropLaterCmds(_, _)
UDropLaterCmds(xs, saw) ==
  IF xs = <<>> THEN <<>>
  ELSE IF UIsCmd(Head(xs)) /\ saw THEN UDropLaterCmds(Tail(xs), saw)
  ELSE <<Head(xs)>> \o UDropLaterCmds(Tail(xs), saw \/ UIsCmd(Head(xs)))

RECURSIVE UNorm(_, _), UNormVec(_, _, _, _, _)
\* members one after another; cur: what a member starts from and (in a sequence) the target; fin: the target in a choice
\* result: [xs, n] - the members kept and what the enclosing part sees
UNormVec(xs, cur, fin, isOr, out) ==
  IF xs = <<>> THEN [xs |-> out, n |-> fin]
  ELSE LET r == UNorm(Head(xs), cur)
           target == IF isOr THEN fin ELSE cur
           wrapit == target = "pull" /\ r.n = "push"
           ntarget == IF r.n = "pull" \/ target = "strip" THEN target ELSE IF wrapit THEN "strip" ELSE r.n
           m == IF wrapit THEN UStrict(r.m) ELSE r.m
           out2 == IF m.k = "skip" THEN out ELSE Append(out, m) IN
       UNormVec(Tail(xs), IF isOr THEN cur ELSE ntarget, IF isOr THEN ntarget ELSE fin, isOr, out2)

UNorm(m, n) ==
  CASE m.k = "and" ->
         LET v == UNormVec(m.xs, n, n, FALSE, <<>>) IN
         [m |-> IF v.xs = <<>> THEN USkip ELSE IF Len(v.xs) = 1 THEN v.xs[1] ELSE UAnd(v.xs), n |-> v.n]
    [] m.k = "or" ->
         LET v == UNormVec(m.xs, n, n, TRUE, <<>>) IN
         IF Len(v.xs) <= 1 THEN [m |-> IF v.xs = <<>> THEN USkip ELSE v.xs[1], n |-> v.n]
         ELSE LET ys == UDropLaterCmds(v.xs, FALSE) IN
              [m |-> IF ys = <<>> THEN USkip ELSE IF Len(ys) = 1 THEN ys[1] ELSE UReq(UOr(ys)), n |-> v.n]
    [] m.k = "opt" ->
         LET r == UNorm(m.m, n) IN
         [n |-> r.n,
          m |-> IF r.m.k = "skip" THEN USkip
                ELSE IF r.m.k \in {"req", "opt"} THEN UOpt(r.m.m)
                ELSE IF r.m.k = "many" /\ r.m.m.k = "req" THEN UMany(UOpt(r.m.m.m))
                ELSE UOpt(r.m)]
    [] m.k = "req" ->
         LET r == UNorm(m.m, n) IN
         [n |-> r.n, m |-> IF r.m.k = "skip" THEN USkip ELSE IF r.m.k \in {"and", "or"} THEN UReq(r.m) ELSE r.m]
    [] m.k = "many" ->
         LET r == UNorm(m.m, n) IN [n |-> r.n, m |-> IF r.m.k = "skip" THEN USkip ELSE UMany(r.m)]
    [] m.k = "custom" ->
         LET r == UNorm(m.m, n) IN [n |-> r.n, m |-> IF m.t = "" THEN USkip ELSE UCustom(r.m, m.t)]
    [] m.k = "strict" ->
         LET r == UNorm(m.m, n) IN [n |-> UPush(r.n), m |-> r.m]
    [] OTHER -> [m |-> m, n |-> n]

UNormalized(m) ==
  LET r == UNorm(m, "pull")
      m1 == IF r.m.k = "req" THEN r.m.m ELSE r.m
      m2 == IF m1.k = "or" THEN UReq(m1) ELSE m1 IN
  IF r.n = "push" THEN UStrict(m2) ELSE m2

(* ------------------------------------------------------------------ 3. text *)
\* sp is the blank between parts: " " for the line as a reader sees it, "" for the comparison (a rendered line may be
\* wrapped between any two parts, so blanks carry no information)
RECURSIVE UText(_, _), UJoin(_, _, _)
UJoin(ms, sep, sp) == IF ms = <<>> THEN "" ELSE IF Len(ms) = 1 THEN UText(ms[1], sp) ELSE UText(ms[1], sp) \o sep \o UJoin(Tail(ms), sep, sp)
UText(m, sp) ==
  CASE m.k = "and"    -> UJoin(m.xs, sp, sp)
    [] m.k = "or"     -> UJoin(m.xs, sp \o "|" \o sp, sp)
    [] m.k = "opt"    -> "[" \o UText(m.m, sp) \o "]"
    [] m.k = "req"    -> "(" \o UText(m.m, sp) \o ")"
    [] m.k = "many"   -> UText(m.m, sp) \o "..."
    [] m.k = "item"   -> IF m.cmd THEN "COMMAND" \o sp \o "..." ELSE m.t
    [] m.k = "custom" -> m.t
    [] m.k = "strict" -> "--" \o sp \o UText(m.m, sp)
    [] OTHER          -> ""

RECURSIVE UPath(_, _)
UPath(p, sp) == IF p = <<>> THEN "" ELSE sp \o Head(p) \o UPath(Tail(p), sp)
\* the whole line for the level reached through the commands named in path
UsageLineS(lvl, path, sp) ==
  LET t == UText(UNormalized(ULevelMeta(lvl)), sp) IN
  "Usage:" \o sp \o "app" \o UPath(path, sp) \o (IF t = "" THEN "" ELSE sp \o t)
UsageLine(lvl, path) == UsageLineS(lvl, path, " ")
=============================================================================
