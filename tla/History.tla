------------------------------ MODULE History ------------------------------
(***************************************************************************)
(* C04 - one OptionParser object and the history of calls made on it.      *)
(* A call is identified by what the documentation says the outcome may     *)
(* depend on: the operation, its argument vector, revision / name /        *)
(* format (the definition is fixed per session; declared environment       *)
(* variables are not changed during a session).                            *)
(*   Total : every call returns, with a result of an allowed class         *)
(*           (never panic, hang, exit of the process)                      *)
(*   Pure  : a call made again - immediately or after other calls - gives  *)
(*           the identical result                                          *)
(* The design model checks the protocol on a tiny universe; HistoryTrace   *)
(* validates recorded sessions of the real object.                         *)
(***************************************************************************)
EXTENDS Naturals, Sequences, FiniteSets, TLC
CONSTANTS Calls, Results
Allowed(op) == CASE op = "parse"    -> {"ok", "stdout", "stderr"}
                 [] op = "complete" -> {"completion", "stdout", "stderr", "ok"}
                 [] op = "doc"      -> {"doc"}
VARIABLES memo, last
hvars == <<memo, last>>
HInit == memo = [c \in {} |-> 0] /\ last = [call |-> "", class |-> "", hash |-> ""]
\* the object answers call c (operation op) with class cl and text hash h
Answer(c, op, cl, h) ==
  /\ cl \in Allowed(op)
  /\ (c \in DOMAIN memo => memo[c] = <<cl, h>>)
  /\ memo' = [x \in DOMAIN memo \cup {c} |-> IF x = c THEN <<cl, h>> ELSE memo[x]]
  /\ last' = [call |-> c, class |-> cl, hash |-> h]
NewSession == memo' = [c \in {} |-> 0] /\ UNCHANGED last
HNext == \/ \E c \in Calls, r \in Results : Answer(c.key, c.op, r.class, r.hash)
         \/ NewSession
\* on the design model: whatever happened, a repeated call shows the remembered result
PureInv == last.call # "" /\ last.call \in DOMAIN memo => memo[last.call] = <<last.class, last.hash>>
TotalInv == last.class \notin {"panic", "hang", "exit"}
=============================================================================
