------------------------------ MODULE GroupLine ------------------------------
(***************************************************************************)
(* One command level whose fields are plain named items, CHOICES between   *)
(* alternatives (C07) and ADJACENT groups (C19), followed by an optional   *)
(* positional tail.  Same architecture as CmdLine (whose value rules it    *)
(* reuses): a pure step function folded over the typed line, an outcome    *)
(* function, TLC enumerating every line, replay and trace validation.      *)
(*                                                                         *)
(* field  : leaf | [kind |-> "alt", id, arity (wrap) \in {"one","opt","many","some"},                *)
(*                  branches : Seq([fields : Seq(leaf)])]                                        *)
(*               | [kind |-> "adj", id, arity (wrap) \in {"one","opt","many"}, head : leaf,        *)
(*                  members : Seq(leaf | [kind |-> "pos", id, vt])]                             *)
(*                                                                         *)
(* Choice, declaratively: the owners of a line are the branches with an    *)
(* item on it; a bare/optional choice yields the single owner's value and  *)
(* fails when two branches own items; a repeated choice collects values in *)
(* greedy rounds - each round the branch whose leftmost remaining item is  *)
(* leftmost wins (ties to the first listed) and its items are removed.     *)
(* Adjacent group: a block opens at the group's first item, members fill   *)
(* it, any other item closes it; a block closed before its required        *)
(* members are filled is a failure; one value per closed block.            *)
(***************************************************************************)
EXTENDS CmdLine

IsLeaf(x)       == x.kind \in {"switch", "reqflag", "arg"}
\* (a branch may also be a positional item: it has no name and takes the first word nobody claimed)
BranchLeaves(f) == UNION {{x \in RangeOf(f.branches[b].fields) : x.kind # "pos"} : b \in DOMAIN f.branches}
HasPosBranch(f) == f.kind = "alt" /\ \E b \in DOMAIN f.branches : \E x \in RangeOf(f.branches[b].fields) : x.kind = "pos"
POOL == "$pos"
NamedMembers(f) == {f.members[m] : m \in {m \in DOMAIN f.members : f.members[m].kind # "pos"}}
PosMembers(f)   == SelectSeq(f.members, LAMBDA m : m.kind = "pos")
\* `head_at` > 0: that many (optional, valued) members are declared IN FRONT of the tag.  bpaf looks for the start of a
\* block with a window as wide as the first declared item - two items for an argument -, in which any named member of
\* the group fits: such a block may start with any of them, and the tag is one required member among the others
Wide(f) == "head_at" \in DOMAIN f /\ f.head_at > 0
BlockMembers(f) == NamedMembers(f) \cup (IF Wide(f) THEN {f.head} ELSE {})
\* the first item of an adjacent group is a required flag, or - for an adjacent subcommand - its name
AdjLeaves(f)    == (IF f.head.kind = "cmd" THEN {} ELSE {f.head}) \cup NamedMembers(f)
CmdHeadOf(d, w) == {k \in {k \in DOMAIN d.named : d.named[k].kind = "adj"} :
                       d.named[k].head.kind = "cmd" /\ w \in RangeOf(d.named[k].head.names)}
FieldLeaves(f)  == IF IsLeaf(f) THEN {f} ELSE IF f.kind = "alt" THEN BranchLeaves(f) ELSE AdjLeaves(f)
GLeaves(d)      == UNION {FieldLeaves(d.named[k]) : k \in DOMAIN d.named}
GOwner(d, n)    == {it \in GLeaves(d) : n \in NamesOf(it)}
AdjFields(d)    == {k \in DOMAIN d.named : d.named[k].kind = "adj"}
AdjOf(d, id)    == {k \in AdjFields(d) : id \in {x.id : x \in AdjLeaves(d.named[k])}}

NoOpen == [k |-> 0, p |-> 0, filled |-> <<>>, words |-> <<>>]
GInitSt(d) == [acc |-> [i \in {x.id : x \in GLeaves(d)} |-> <<>>], pos |-> <<>>,
               blocks |-> [k \in AdjFields(d) |-> <<>>], open |-> NoOpen, pending |-> "",
               posOnly |-> FALSE, dead |-> "", help |-> FALSE, n |-> 0, recent |-> 0, cut |-> 0, hp |-> <<>>, win |-> 0,
               \* the line left what the specification makes a statement about (see Wide)
               out |-> FALSE,
               \* an adjacent subcommand with fallback_to_usage that found nothing to work on printed its usage (its field)
               usage |-> 0, usagep |-> 0,
               \* starts of a block under a word tag that did not work out (see Close)
               litfail |-> 0]

GKill(gs, why) == [gs EXCEPT !.dead = IF @ = "" THEN why ELSE @]
FilledIds(gs)  == {gs.open.filled[i].id : i \in DOMAIN gs.open.filled}

\* is the open block complete (every required member present)?
Complete(d, gs) ==
  LET g == d.named[gs.open.k] IN
  /\ \A m \in BlockMembers(g) : (m.kind = "reqflag" \/ (m.kind = "arg" /\ m.arity = "one")) => m.id \in FilledIds(gs)
  /\ Len(gs.open.words) = Len(PosMembers(g))
Full(d, gs) ==
  LET g == d.named[gs.open.k] IN
  /\ \A m \in BlockMembers(g) : m.id \in FilledIds(gs)
  /\ Len(gs.open.words) = Len(PosMembers(g))
\* a positional member that is a fixed word (it stands for the name of a regular subcommand nested in an adjacent one)
LitBad(m, w) == "lit" \in DOMAIN m /\ m.lit # "" /\ w # m.lit
\* a member of the open block holds a value that fails conversion or its guard
BlockBad(d, gs) ==
  LET g == d.named[gs.open.k] IN
  \/ \E i \in DOMAIN gs.open.filled : \E m \in NamedMembers(g) :
        m.id = gs.open.filled[i].id /\ m.kind = "arg" /\ BadValue(m, gs.open.filled[i].v)
  \/ \E j \in DOMAIN gs.open.words : ConvBad(PosMembers(g)[j].vt, gs.open.words[j]) \/ LitBad(PosMembers(g)[j], gs.open.words[j])
\* `cut` remembers the first adjacent subcommand whose block cannot stand (cut short, or holding an invalid value)
\* A block under a WORD tag that cannot stand is not a failure by itself: bpaf goes on to the next place where the tag
\* stands, and the tag and the words after it are plain words again.  It is one when no later start works out for a group
\* that is looked for once, or whenever the group is looked for again (a repetition) - see LitFailed.
Close(d, gs) ==
  IF gs.open.k = 0 THEN gs
  ELSE LET cmdk == IF d.named[gs.open.k].head.kind = "cmd" THEN gs.open.k ELSE 0 IN
       IF d.named[gs.open.k].head.kind = "lit" /\ gs.open.filled = <<>> /\ (~Complete(d, gs) \/ BlockBad(d, gs))
       THEN LET ws == <<d.named[gs.open.k].head.lit>> \o gs.open.words
                back == [j \in DOMAIN ws |-> [w |-> ws[j], after |-> FALSE, p |-> gs.open.p + j - 1]] IN
            IF d.tail.kind = "pos" THEN [gs EXCEPT !.open = NoOpen, !.pos = @ \o back, !.litfail = @ + 1]
            ELSE [GKill(gs, "unexpected") EXCEPT !.open = NoOpen, !.litfail = @ + 1]
       ELSE
       IF Complete(d, gs)
       THEN [gs EXCEPT !.blocks[gs.open.k] = Append(@, [filled |-> gs.open.filled, words |-> gs.open.words, p |-> gs.open.p]),
                       !.open = NoOpen,
                       !.cut = IF @ = 0 /\ BlockBad(d, gs) THEN cmdk ELSE @]
       ELSE [GKill(gs, "block_cut") EXCEPT !.open = NoOpen, !.cut = IF @ = 0 THEN cmdk ELSE @]
AutoClose(d, gs) == IF gs.open.k # 0 /\ Full(d, gs) THEN Close(d, gs) ELSE gs

GAcc(gs, id, v)  == [gs EXCEPT !.acc[id] = Append(@, [v |-> v, p |-> gs.n])]
Fill(d, gs, id, v) == AutoClose(d, [gs EXCEPT !.open.filled = Append(@, [id |-> id, v |-> v])])
InOpenBlock(d, gs, it) ==
  /\ gs.open.k # 0
  /\ it.id \in {m.id : m \in BlockMembers(d.named[gs.open.k])}
  /\ it.id \notin FilledIds(gs)

\* a named item: hasv = the value is attached (--n=v, -nv); otherwise a flag or a pending argument
GName(d, gs, n, hasv, v) ==
  LET own == GOwner(d, n) IN
  IF own = {} THEN GKill(Close(d, gs), "unknown")
  ELSE LET it == CHOOSE x \in own : TRUE IN
    IF InOpenBlock(d, gs, it)
    THEN \* (where a block of a wide group starts when a member declared in front of the tag is typed later inside it
         \* depends on what happens to stand next to it: no statement is made about such lines)
         LET g == d.named[gs.open.k]
             late == Wide(g) /\ (gs.open.filled # <<>> \/ gs.open.words # <<>>) /\
                     \E j \in 1..g.head_at : g.members[j].id = it.id
             gs1 == IF late THEN [gs EXCEPT !.out = TRUE] ELSE gs IN
         IF it.kind = "arg" THEN (IF hasv THEN Fill(d, gs1, it.id, v) ELSE [gs1 EXCEPT !.pending = it.id])
         ELSE (IF hasv THEN GKill(gs1, "unexpected") ELSE Fill(d, gs1, it.id, "U"))
    ELSE LET s1 == Close(d, gs)  ks == AdjOf(d, it.id) IN
      IF ks # {} THEN
           LET k == CHOOSE k \in ks : TRUE IN
           IF Wide(d.named[k])
           THEN \* any named member opens the block and is its first item
                LET s2 == [s1 EXCEPT !.open = [k |-> k, p |-> s1.n, filled |-> <<>>, words |-> <<>>]] IN
                IF it.kind = "arg" THEN (IF hasv THEN Fill(d, s2, it.id, v) ELSE [s2 EXCEPT !.pending = it.id])
                ELSE (IF hasv THEN GKill(s2, "unexpected") ELSE Fill(d, s2, it.id, "U"))
           ELSE
           IF d.named[k].head.id = it.id /\ ~hasv
           THEN AutoClose(d, [s1 EXCEPT !.open = [k |-> k, p |-> s1.n, filled |-> <<>>, words |-> <<>>]])
           ELSE GKill(s1, "unknown")              \* a member outside of a block of its group
      ELSE IF it.kind = "arg" THEN (IF hasv THEN GAcc(s1, it.id, v)
                                    ELSE IF it.adj THEN GKill(s1, "unknown") ELSE [s1 EXCEPT !.pending = it.id])
      ELSE (IF hasv THEN GKill(GAcc(s1, it.id, "U"), "unexpected") ELSE GAcc(s1, it.id, "U"))

\* an adjacent subcommand is looked for when its field is evaluated: items of fields declared after it
\* are still unclaimed then and, typed in front of the name, hide it; a group that is not repeated is
\* looked for only once
IsJoinedF(f) == f.kind = "adj" /\ "joined" \in DOMAIN f /\ f.joined # ""
CanEnter(d, gs, k) ==
  /\ \A j \in DOMAIN d.named : j > k => \A it \in FieldLeaves(d.named[j]) : gs.acc[it.id] = <<>>
  \* (so is a block of an adjacent subcommand declared after it - unless both are alternatives of one choice)
  /\ \A j \in AdjFields(d) : (j > k /\ ~(IsJoinedF(d.named[j]) /\ IsJoinedF(d.named[k]) /\ d.named[j].joined = d.named[k].joined))
                                 => gs.blocks[j] = <<>>
  /\ (d.named[k].arity \in {"one", "opt"} => gs.blocks[k] = <<>>)
\* a repeated occurrence of a single-use option is an item nobody claimed
\* (so is what a bare or optional choice leaves behind: items of a second branch, a second occurrence of a member)
NoSurplus(d, gs) ==
  \A k \in DOMAIN d.named :
    LET f == d.named[k] IN
    /\ (IsLeaf(f) /\ SingleUse(f)) => Len(gs.acc[f.id]) <= 1
    /\ (f.kind = "alt" /\ f.arity \in {"one", "opt", "fallback", "fallback_with"}) =>
          /\ Cardinality({b \in DOMAIN f.branches : \E it \in RangeOf(f.branches[b].fields) : it.kind # "pos" /\ gs.acc[it.id] # <<>>}) <= 1
          /\ \A it \in BranchLeaves(f) : SingleUse(it) => Len(gs.acc[it.id]) <= 1
\* a level may declare its positional items IN FRONT of its (name-led) adjacent groups: they are looked for first and
\* take the first words of the line - also a word typed inside a block, which is thereby cut short
PosFirst(d) == "pos_first" \in DOMAIN d /\ d.pos_first /\ d.tail.kind = "pos"
LitHeadOf(d, w) == {k \in DOMAIN d.named : d.named[k].kind = "adj" /\ "head" \in DOMAIN d.named[k] /\
                                            d.named[k].head.kind = "lit" /\ d.named[k].head.lit = w}
GWord(d, gs, w) ==
  IF PosFirst(d) /\ Len(gs.pos) < Len(d.tail.items)
  THEN LET s1 == Close(d, gs) IN [s1 EXCEPT !.pos = Append(@, [w |-> w, after |-> FALSE, p |-> s1.n])]
  ELSE
  IF gs.open.k # 0 /\ Len(gs.open.words) < Len(PosMembers(d.named[gs.open.k]))
  THEN AutoClose(d, [gs EXCEPT !.open.words = Append(@, w)])
  \* the tag of a group may be a fixed word that is looked for anywhere on the line (`literal("+ext").anywhere()`): it
  \* opens a block wherever it stands
  ELSE IF LitHeadOf(d, w) # {} /\ (LET k == CHOOSE k \in LitHeadOf(d, w) : TRUE IN
                                   d.named[k].arity \in {"one", "opt"} => Close(d, gs).blocks[k] = <<>>)
  THEN LET s1 == Close(d, gs)  k == CHOOSE k \in LitHeadOf(d, w) : TRUE IN
       AutoClose(d, [s1 EXCEPT !.open = [k |-> k, p |-> s1.n, filled |-> <<>>, words |-> <<>>]])
  ELSE LET s1 == Close(d, gs)  ks == CmdHeadOf(d, w) IN
       \* the name of an adjacent subcommand opens a block, provided it is the first item the level has
       \* not claimed (positional words typed before it are still unclaimed when the command is looked for)
       IF ks # {} /\ s1.pos = <<>> /\ s1.dead = "" /\ CanEnter(d, s1, CHOOSE k \in ks : TRUE) /\ NoSurplus(d, s1)
       THEN AutoClose(d, [s1 EXCEPT !.open = [k |-> CHOOSE k \in ks : TRUE, p |-> s1.n, filled |-> <<>>, words |-> <<>>]])
       ELSE IF d.tail.kind = "pos" \/ \E k \in DOMAIN d.named : HasPosBranch(d.named[k])
            THEN [s1 EXCEPT !.pos = Append(@, [w |-> w, after |-> FALSE, p |-> s1.n])]
       ELSE GKill(s1, "unexpected")

\* several short flags in one item (`-ab`): the flags one after the other
RECURSIVE GBundle(_, _, _)
\* (each letter is an item of its own for bpaf: positions keep counting)
GBundle(d, gs, ss) == IF ss = <<>> THEN gs
                      ELSE LET s1 == GName(d, gs, Head(ss), FALSE, "") IN
                           GBundle(d, IF Tail(ss) = <<>> THEN s1 ELSE [s1 EXCEPT !.n = @ + 1], Tail(ss))
GPlain(d, gs, e) ==
  CASE e.t = "dd"   -> [Close(d, gs) EXCEPT !.posOnly = TRUE]
    [] e.t = "cluster" -> GBundle(d, gs, e.ss)
    [] e.t = "help" -> [Close(d, gs) EXCEPT !.help = TRUE]
    [] e.t \in {"unk", "ver"} -> GKill(Close(d, gs), "unknown")
    [] e.t = "name" -> GName(d, gs, e.s, FALSE, "")
    [] e.t \in {"eq", "glued"} -> GName(d, gs, e.s, TRUE, e.v)
    [] e.t = "word" -> GWord(d, gs, e.s)

GStep0(d, gs0, e) ==
  LET gs == [gs0 EXCEPT !.n = @ + 1] IN
  IF gs.posOnly THEN [gs EXCEPT !.pos = Append(@, [w |-> e.txt, after |-> TRUE, p |-> gs.n])]
  ELSE IF gs.pending # ""
       THEN LET s1 == [gs EXCEPT !.pending = ""] IN
            IF e.t = "word"
            THEN (IF s1.open.k # 0 /\ gs.pending \in {m.id : m \in NamedMembers(d.named[s1.open.k])}
                  THEN Fill(d, s1, gs.pending, e.s) ELSE GAcc(s1, gs.pending, e.s))
            ELSE GPlain(d, Close(d, GKill(s1, "noarg")), e)   \* a name left without its value ends the block in front of it
       ELSE GPlain(d, gs, e)
\* which adjacent subcommand the last item belonged to (0 = none): its block is still open, or the item
\* completed it.  Help asked right there describes that command, and so does help asked anywhere after a
\* block of the command was cut short (the command is the innermost one entered and it cannot finish);
\* asked anywhere else it describes the level.
\* an adjacent subcommand with `fallback_to_usage` whose name was just typed: nothing of its own yet, and it cannot
\* succeed on nothing
HeadFtu(d, k) == d.named[k].head.kind = "cmd" /\ "ftu" \in DOMAIN d.named[k].head /\ d.named[k].head.ftu
BareFtu(d, gs) == gs.open.k # 0 /\ HeadFtu(d, gs.open.k) /\ gs.open.filled = <<>> /\ gs.open.words = <<>> /\ gs.pending = "" /\ ~Complete(d, gs)
GStep(d, gs00, e) ==
  LET r0 == GStep0(d, gs00, e)
      gs0 == gs00
      \* the item that follows the bare name was claimed before the command was looked for (an option declared in front
      \* of it): the command still sees nothing at all and prints its usage instead of failing
      \* (a single-use option takes its first occurrence only: a second one is still there for the command to see)
      early == e.t \in {"name", "eq", "glued"} /\ \E j \in 1..(gs00.open.k - 1) :
                  /\ IsLeaf(d.named[j]) /\ e.s \in NamesOf(d.named[j])
                  /\ (SingleUse(d.named[j]) => gs00.acc[d.named[j].id] = <<>>)
      r == IF BareFtu(d, gs00) /\ (r0.open.k # gs00.open.k \/ r0.open.p # gs00.open.p) /\ early /\ gs00.dead = "" /\ r0.dead = "block_cut"
           THEN [r0 EXCEPT !.dead = "", !.usage = IF @ = 0 THEN gs00.open.k ELSE @,
                         !.usagep = IF r0.usage = 0 THEN gs00.open.p ELSE @, !.cut = gs00.cut]
           ELSE r0
      joined == /\ gs0.open.k # 0 /\ r.open.k = 0 /\ Len(r.blocks[gs0.open.k]) = Len(gs0.blocks[gs0.open.k]) + 1
                /\ r.acc = gs0.acc /\ r.pos = gs0.pos /\ r.dead = gs0.dead /\ r.posOnly = gs0.posOnly /\ r.help = gs0.help
      \* a block that this very item opened and completed (a command without items of its own)
      fresh == {j \in DOMAIN r.blocks : Len(r.blocks[j]) = Len(gs0.blocks[j]) + 1 /\ r.blocks[j][Len(r.blocks[j])].p = r.n}
      k == IF r.open.k # 0 THEN r.open.k ELSE IF fresh # {} THEN CHOOSE j \in fresh : TRUE ELSE IF joined THEN gs0.open.k ELSE 0
      kc == IF k # 0 /\ d.named[k].head.kind = "cmd" THEN k ELSE 0
      \* an argument name still waiting for its value is not part of the block: the block ends in front of it
      was0 == IF gs0.pending # "" THEN 0 ELSE IF gs0.open.k # 0 THEN gs0.open.k ELSE gs0.recent
      was1 == IF was0 # 0 /\ d.named[was0].head.kind = "cmd" THEN was0 ELSE 0
      was == IF was1 # 0 THEN was1 ELSE r.cut
      asked == r.help /\ ~gs0.help IN
  [r EXCEPT !.recent = IF asked THEN 0 ELSE kc,
            \* the window of an adjacent subcommand: the items after its name up to the first one the level had already
            \* claimed when the command was looked for (an option declared before it); words and later-declared items
            \* typed after the block are still inside it as far as completion is concerned
            !.win = IF kc # 0 THEN kc
                    ELSE IF gs0.win # 0 /\ e.t \in {"name", "eq", "glued"} /\
                            \E j \in 1..(gs0.win - 1) : IsLeaf(d.named[j]) /\ e.s \in NamesOf(d.named[j]) THEN 0
                    ELSE gs0.win,
            !.hp = IF asked /\ was # 0 /\ ~gs0.posOnly THEN <<d.named[was].head.names[1]>> ELSE @]

RECURSIVE GRun(_, _, _)
GRun(d, gs, l) == IF l = <<>> THEN gs ELSE GRun(d, GStep(d, gs, Head(l)), Tail(l))

(* ------------------------------------------------------------------ Finish *)
Vals(occ) == [i \in DOMAIN occ |-> occ[i].v]
Conv(it, w) == IF it.kind # "arg" THEN "U" ELSE IF it.vt = "int" THEN ToInt(w) ELSE w

\* one leaf of a branch tries to take its leftmost remaining occurrence; a leaf with no occurrence left
\* whose environment variable is set takes the variable's value instead - consuming nothing (C18)
LeafAttempt(it, R, envv, acc0) ==
  IF it.kind = "pos"
  THEN \* a positional branch takes the first word nobody has claimed; a word that does not convert makes the
       \* branch fail for good ("phard") - but the word is not the branch's own and may still go elsewhere
       IF R[POOL] = <<>> THEN [res |-> "miss", v |-> "NONE", used |-> {}, left |-> 0, all |-> FALSE]
       ELSE LET h == Head(R[POOL]) IN
            \* a literal takes the word only if it is exactly its own (another word merely leaves it absent)
            IF "lit" \in DOMAIN it /\ it.lit # ""
            THEN (IF h.w = it.lit THEN [res |-> "ok", used |-> {POOL}, left |-> h.p, all |-> FALSE, v |-> "U"]
                  ELSE [res |-> "miss", v |-> "NONE", used |-> {}, left |-> 0, all |-> FALSE])
            ELSE
            IF ConvBad(it.vt, h.w) THEN [res |-> "phard", v |-> "NONE", used |-> {}, left |-> 0, all |-> FALSE]
            ELSE [res |-> "ok", used |-> {POOL}, left |-> h.p, all |-> FALSE, v |-> IF it.vt = "int" THEN ToInt(h.w) ELSE h.w]
  ELSE
  LET occ == R[it.id]
      \* the environment stands in for an item whenever no occurrence of it is left for this evaluation; a value
      \* from there that fails conversion or the guard makes the member fail for good ("ehard")
      ev  == EnvOf(envv, it) IN
  IF occ = <<>> /\ ev # "UNSET"
  THEN IF it.kind = "arg" /\ BadValue(it, ev)
       \* (when the line does give the item - in an earlier block - its variable is not what the user relies on: the
       \* member is merely absent from this block)
       THEN [res |-> IF acc0[it.id] = <<>> THEN "ehard" ELSE "miss", v |-> "NONE", used |-> {}, left |-> 0, all |-> FALSE]
       ELSE [res |-> "ok", used |-> {}, left |-> 0, all |-> FALSE,
             v |-> IF it.kind = "switch" THEN TRUE
                   ELSE IF it.kind # "arg" THEN (IF it.arity = "count" THEN [count |-> 1] ELSE IF it.arity \in {"many", "some"} THEN <<"U">> ELSE "U")
                   ELSE IF it.arity \in {"many", "some"} THEN <<Conv(it, ev)>>
                   ELSE IF it.arity = "opt" THEN [some |-> Conv(it, ev)] ELSE Conv(it, ev)]
  ELSE IF it.kind = "arg" /\ it.arity \in {"many", "some", "last"}
  THEN \* a repeated member takes every remaining occurrence (`last`: and keeps the last one)
       IF \E i \in DOMAIN occ : BadValue(it, occ[i].v) THEN [res |-> "hard", v |-> "NONE", used |-> {}, left |-> 0, all |-> TRUE]
       ELSE IF occ = <<>> THEN [res |-> IF it.arity = "many" THEN "ok" ELSE "miss", v |-> <<>>, used |-> {}, left |-> 0, all |-> TRUE]
       ELSE [res |-> "ok", used |-> {it.id}, left |-> occ[1].p, all |-> TRUE,
             v |-> IF it.arity = "last" THEN Conv(it, occ[Len(occ)].v) ELSE [i \in DOMAIN occ |-> Conv(it, occ[i].v)]]
  ELSE IF it.kind = "reqflag" /\ it.arity \in {"many", "some", "count"}
  THEN \* ... and so does a repeated or counted flag
       IF occ = <<>> THEN [res |-> IF it.arity = "some" THEN "miss" ELSE "ok", used |-> {}, left |-> 0, all |-> TRUE,
                           v |-> IF it.arity = "count" THEN [count |-> 0] ELSE <<>>]
       ELSE [res |-> "ok", used |-> {it.id}, left |-> occ[1].p, all |-> TRUE,
             v |-> IF it.arity = "count" THEN [count |-> Len(occ)] ELSE [i \in DOMAIN occ |-> "U"]]
  ELSE IF occ = <<>>
  THEN IF it.kind = "switch" THEN [res |-> "ok", v |-> FALSE, used |-> {}, left |-> 0, all |-> FALSE]
       ELSE IF it.arity = "opt" THEN [res |-> "ok", v |-> "NONE", used |-> {}, left |-> 0, all |-> FALSE]
       ELSE IF it.arity \in {"fallback", "fallback_with"}
       THEN [res |-> "ok", used |-> {}, left |-> 0, all |-> FALSE,
             v |-> IF it.kind # "arg" THEN "U" ELSE IF it.vt = "int" THEN FallbackInt ELSE FallbackStr]
       ELSE [res |-> "miss", v |-> "NONE", used |-> {}, left |-> 0, all |-> FALSE]
  ELSE LET h == Head(occ) IN
       IF it.kind = "arg" /\ BadValue(it, h.v) THEN [res |-> "hard", v |-> "NONE", used |-> {}, left |-> 0, all |-> FALSE]
       ELSE [res |-> "ok", used |-> {it.id}, left |-> h.p, all |-> FALSE,
             v |-> IF it.kind = "switch" THEN TRUE
                   ELSE IF it.arity = "opt" THEN [some |-> Conv(it, h.v)] ELSE Conv(it, h.v)]
MinOf(S) == CHOOSE x \in S : \A y \in S : x <= y
BranchAttempt(br, R, envv, acc0) ==
  LET A == [j \in DOMAIN br.fields |-> LeafAttempt(br.fields[j], R, envv, acc0)]
      used == UNION {A[j].used : j \in DOMAIN A}
      lefts == {A[j].left : j \in {j \in DOMAIN A : A[j].used # {}}} IN
  \* the members are evaluated in declaration order and the first one that fails decides how the branch fails
  [res |-> LET bad == {j \in DOMAIN A : A[j].res # "ok"} IN IF bad = {} THEN "ok" ELSE A[MinOf(bad)].res,
   used |-> used, left |-> IF lefts = {} THEN 0 ELSE MinOf(lefts),
   allof |-> UNION {IF A[j].all THEN A[j].used ELSE {} : j \in DOMAIN A},
   v |-> IF Len(br.fields) = 1 THEN A[1].v ELSE [t |-> [j \in DOMAIN A |-> A[j].v]]]

RECURSIVE AltRounds(_, _, _, _, _, _)
AltRounds(f, R, vals, fuel, envv, acc0) ==
  LET A == [b \in DOMAIN f.branches |-> BranchAttempt(f.branches[b], R, envv, acc0)]
      S == {b \in DOMAIN A : A[b].res = "ok" /\ A[b].used # {}}
      Z == {b \in DOMAIN A : A[b].res = "ok"} IN
  IF \E b \in DOMAIN A : A[b].res = "hard" THEN [ok |-> FALSE, why |-> [k |-> "conv"]]
  ELSE IF Z = {} /\ \E b \in DOMAIN A : A[b].res = "phard" THEN [ok |-> FALSE, why |-> [k |-> "conv"]]
  \* an invalid value from the environment is final - except in a later round in which nothing is consumed: the
  \* values typed on the line have been used up and the repetition simply ends there
  ELSE IF (S # {} \/ vals = <<>>) /\ \E b \in DOMAIN A : A[b].res = "ehard" THEN [ok |-> FALSE, why |-> [k |-> "conv"]]
  ELSE IF S = {} \/ fuel = 0
       THEN \* a repetition keeps one value of a parser that succeeds without consuming anything (defaults,
            \* environment) - the first time round only
            IF vals = <<>> /\ Z # {} THEN [ok |-> TRUE, vals |-> <<[v |-> MinOf(Z) - 1, x |-> A[MinOf(Z)].v]>>, R |-> R]
            ELSE [ok |-> TRUE, vals |-> vals, R |-> R]
  ELSE LET w  == CHOOSE b \in S : \A c \in S : A[b].left < A[c].left \/ (A[b].left = A[c].left /\ b <= c)
           R2 == [i \in DOMAIN R |-> IF i \in A[w].allof THEN <<>> ELSE IF i \in A[w].used THEN Tail(R[i]) ELSE R[i]] IN
       AltRounds(f, R2, Append(vals, [v |-> w - 1, x |-> A[w].v]), fuel - 1, envv, acc0)

Leftover(f, R) == \E it \in BranchLeaves(f) : R[it.id] # <<>>

\* the default value of a defaulted group: its members' own defaults (the harness and the generated code use the same)
MemberDefault(it) == IF it.kind = "switch" THEN FALSE ELSE IF it.kind = "reqflag" THEN "U"
                     ELSE IF it.arity = "opt" THEN "NONE" ELSE IF it.arity \in {"many", "some"} THEN <<>>
                     ELSE IF it.vt = "int" THEN 7 ELSE "d"
BranchDefault(br) == IF Len(br.fields) = 1 THEN MemberDefault(br.fields[1]) ELSE [t |-> [j \in DOMAIN br.fields |-> MemberDefault(br.fields[j])]]
\* `pool` = the words nobody has claimed yet (with their positions); the result says which of them remain
AltVal(f, acc, envv, pool) ==
  LET R0 == [i \in DOMAIN acc \cup {POOL} |-> IF i = POOL THEN pool ELSE acc[i]] IN
  IF f.arity \in {"many", "some", "count"} THEN
     LET r == AltRounds(f, R0, <<>>, 16, envv, R0) IN
     IF ~r.ok THEN r
     ELSE IF Leftover(f, r.R) THEN [ok |-> FALSE, why |-> [k |-> "leftover"]]
     ELSE IF f.arity = "some" /\ r.vals = <<>> THEN [ok |-> FALSE, why |-> [k |-> "missing", id |-> f.id]]
     \* `count()` over a group: how many times the group was given in full (a partly given one is left over)
     ELSE [ok |-> TRUE, v |-> IF f.arity = "count" THEN [count |-> Len(r.vals)] ELSE r.vals, pool |-> r.R[POOL]]
  ELSE
     \* every branch is tried on the same line; among those that succeed the one that consumed the leftmost
     \* item wins (ties and non-consuming successes go to the first listed); what the losers would have
     \* consumed stays on the line - a named item left there fails the run, a word goes on to the positionals
     LET A == [b \in DOMAIN f.branches |-> BranchAttempt(f.branches[b], R0, envv, R0)]
         Z == {b \in DOMAIN A : A[b].res = "ok"}
         S == {b \in Z : A[b].used # {}}
         Wrap(x) == IF f.arity = "opt" THEN [some |-> x] ELSE x IN
     IF \E b \in DOMAIN A : A[b].res \in {"hard", "ehard"} THEN [ok |-> FALSE, why |-> [k |-> "conv"]]
     ELSE IF Z = {}
     THEN IF \E b \in DOMAIN A : A[b].res = "phard" THEN [ok |-> FALSE, why |-> [k |-> "conv"]]
          ELSE IF Leftover(f, R0) THEN [ok |-> FALSE, why |-> [k |-> "leftover"]]
          ELSE IF f.arity = "opt" THEN [ok |-> TRUE, v |-> "NONE", pool |-> pool]
          \* a defaulted choice / group (`fallback`, `fallback_with`): the default stands in only when nothing of it was typed
          ELSE IF f.arity \in {"fallback", "fallback_with"}
          THEN \* (a validation that refuses the default itself fails the run when the default is what comes out)
               IF "gdflt" \in DOMAIN f /\ f.gdflt THEN [ok |-> FALSE, why |-> [k |-> "guard", id |-> f.id]]
               ELSE [ok |-> TRUE, v |-> [v |-> 0, x |-> BranchDefault(f.branches[1])], pool |-> pool]
          ELSE [ok |-> FALSE, why |-> [k |-> "missing", id |-> f.id]]
     ELSE LET w  == IF S # {} THEN CHOOSE b \in S : \A c \in S : A[b].left < A[c].left \/ (A[b].left = A[c].left /\ b <= c)
                    ELSE MinOf(Z)
              R2 == [i \in DOMAIN R0 |-> IF i \in A[w].allof THEN <<>> ELSE IF i \in A[w].used THEN Tail(R0[i]) ELSE R0[i]] IN
          IF Leftover(f, R2) THEN [ok |-> FALSE, why |-> [k |-> "conflict"]]
          ELSE [ok |-> TRUE, v |-> Wrap([v |-> w - 1, x |-> A[w].v]), pool |-> R2[POOL]]

\* value of one closed block of an adjacent group
BlockVal(g, b) ==
  LET FilledV(id) == LET S == {i \in DOMAIN b.filled : b.filled[i].id = id} IN
                     IF S = {} THEN [has |-> FALSE, v |-> ""] ELSE [has |-> TRUE, v |-> b.filled[CHOOSE i \in S : TRUE].v]
      MemberV(m, j) ==     \* j = index among positional members
        IF m.kind = "pos"
        THEN (IF ConvBad(m.vt, b.words[j]) \/ LitBad(m, b.words[j]) THEN [ok |-> FALSE]
              ELSE [ok |-> TRUE, v |-> IF "lit" \in DOMAIN m /\ m.lit # "" THEN "U" ELSE IF m.vt = "int" THEN ToInt(b.words[j]) ELSE b.words[j]])
        ELSE LET fv == FilledV(m.id) IN
             IF m.kind = "switch" THEN [ok |-> TRUE, v |-> fv.has]
             ELSE IF m.kind = "reqflag" THEN [ok |-> TRUE, v |-> "U"]
             ELSE IF ~fv.has THEN [ok |-> TRUE, v |-> "NONE"]
             ELSE IF BadValue(m, fv.v) THEN [ok |-> FALSE]
             ELSE [ok |-> TRUE, v |-> IF m.arity = "opt" THEN [some |-> Conv(m, fv.v)] ELSE Conv(m, fv.v)]
      PosIx(k) == Cardinality({i \in 1..k : g.members[i].kind = "pos"})
      mv == [k \in DOMAIN g.members |-> MemberV(g.members[k], PosIx(k))] IN
  IF \E k \in DOMAIN mv : ~mv[k].ok THEN [ok |-> FALSE]
  ELSE LET vs == [k \in DOMAIN mv |-> mv[k].v]
           at == IF Wide(g) THEN g.head_at ELSE 0 IN       \* the tag's place among the members
       [ok |-> TRUE, v |-> [t |-> IF g.head.kind = "cmd" THEN vs
                                   ELSE SubSeq(vs, 1, at) \o <<"U">> \o SubSeq(vs, at + 1, Len(vs))]]

AdjVal(g, B) ==
  LET bv == [i \in DOMAIN B |-> BlockVal(g, B[i])] IN
  IF \E i \in DOMAIN bv : ~bv[i].ok THEN [ok |-> FALSE, why |-> [k |-> "conv"]]
  ELSE LET vs == [i \in DOMAIN bv |-> bv[i].v] IN
    CASE g.arity = "one" -> IF Len(vs) = 1 THEN [ok |-> TRUE, v |-> vs[1]]
                            ELSE [ok |-> FALSE, why |-> [k |-> IF Len(vs) = 0 THEN "missing" ELSE "toomany", id |-> g.id]]
      [] g.arity = "opt" -> IF Len(vs) = 0 THEN [ok |-> TRUE, v |-> "NONE"]
                            ELSE IF Len(vs) = 1 THEN [ok |-> TRUE, v |-> [some |-> vs[1]]]
                            ELSE [ok |-> FALSE, why |-> [k |-> "toomany", id |-> g.id]]
      [] g.arity = "many" -> [ok |-> TRUE, v |-> vs]
      [] g.arity = "some" -> IF vs = <<>> THEN [ok |-> FALSE, why |-> [k |-> "missing", id |-> g.id]] ELSE [ok |-> TRUE, v |-> vs]
      [] g.arity = "count" -> [ok |-> TRUE, v |-> [count |-> Len(vs)]]

\* adjacent subcommands that are the alternatives of one repeated choice (`construct!([build, test, clean]).many()`):
\* one value per block, in command-line order of the blocks, tagged with the command it belongs to
IsJoined(f) == f.kind = "adj" /\ "joined" \in DOMAIN f /\ f.joined # ""
JoinedSet(d, k) == {j \in DOMAIN d.named : IsJoined(d.named[j]) /\ d.named[j].joined = d.named[k].joined}
JoinedVal(d, gs, k) ==
  LET J == JoinedSet(d, k)
      all == UNION {{<<j, i>> : i \in DOMAIN gs.blocks[j]} : j \in J}
      BV(pr) == BlockVal(d.named[pr[1]], gs.blocks[pr[1]][pr[2]])
      sorted == SetToSortSeq(all, LAMBDA a, b : gs.blocks[a[1]][a[2]].p < gs.blocks[b[1]][b[2]].p) IN
  IF \E pr \in all : ~BV(pr).ok THEN [ok |-> FALSE, why |-> [k |-> "conv"]]
  ELSE IF d.named[k].arity = "some" /\ all = {} THEN [ok |-> FALSE, why |-> [k |-> "missing", id |-> d.named[k].id]]
  ELSE [ok |-> TRUE, v |-> [n \in DOMAIN sorted |-> [v |-> Cardinality({x \in J : x < sorted[n][1]}), x |-> BV(sorted[n]).v]]]

\* a start under a word tag that did not work out fails the run when the group found no place at all, or is looked for again
LitFailed(d, gs) == gs.litfail > 0 /\ \E k \in AdjFields(d) :
                       d.named[k].head.kind = "lit" /\ (d.named[k].arity \in {"many", "some"} \/ gs.blocks[k] = <<>>)
\* `toggle_flag`: a repeated choice between two required flags of which the last one given decides
Toggle(f, r) == IF "battery" \in DOMAIN f /\ f.battery.k = "toggle" /\ r.ok
                THEN [r EXCEPT !.v = IF @ = <<>> THEN "NONE" ELSE [some |-> @[Len(@)]]] ELSE r
GFinish(d, gs0, envv) ==
  LET gs == Close(d, gs0) IN
  IF gs.dead # "" THEN [class |-> "stderr", why |-> [k |-> gs.dead]]
  ELSE IF gs.pending # "" THEN [class |-> "stderr", why |-> [k |-> "noarg"]]
  ELSE
    LET plain == [acc |-> [i \in DOMAIN gs.acc |-> Vals(gs.acc[i])]]
        fv == [k \in DOMAIN d.named |->
                 LET f == d.named[k] IN
                 IF IsLeaf(f) THEN NamedVal(plain, f, envv)
                 ELSE IF f.kind = "alt" THEN Toggle(f, AltVal(f, gs.acc, envv, gs.pos))
                 ELSE IF IsJoined(f) THEN JoinedVal(d, gs, k)
                 ELSE AdjVal(f, gs.blocks[k])]
        bad == {k \in DOMAIN fv : ~fv[k].ok}
        \* a joined group is one field: its value sits where its first command is declared
        Shown == {k \in DOMAIN fv : ~IsJoined(d.named[k]) \/ k = MinOf(JoinedSet(d, k))}
        \* words a positional branch of a choice took are gone (at most one choice of a level has such a branch)
        PA == {k \in DOMAIN d.named : HasPosBranch(d.named[k])} IN
    IF LitFailed(d, gs) THEN [class |-> "stderr", why |-> [k |-> "block_cut"]]
    ELSE IF bad # {} THEN [class |-> "stderr", why |-> fv[MinOf(bad)].why]
    ELSE LET shown == SetToSortSeq(Shown, LAMBDA a, b : a < b)
             base == [n \in DOMAIN shown |-> fv[shown[n]].v]
             rest == IF PA = {} THEN gs.pos ELSE fv[MinOf(PA)].pool IN
      IF d.tail.kind = "pos"
      THEN LET r == AssignPos(d.tail.items, rest, <<>>) IN
           IF r.ok THEN [class |-> "ok", value |-> [t |-> IF PosFirst(d) THEN r.vals \o base ELSE base \o r.vals]]
           ELSE [class |-> "stderr", why |-> r.why]
      ELSE IF rest = <<>> THEN [class |-> "ok", value |-> [t |-> base]]
      ELSE [class |-> "stderr", why |-> [k |-> "surplus"]]

GOutcome(d, gs, envv) ==
  LET u == IF gs.usage # 0 THEN gs.usage ELSE IF BareFtu(d, gs) /\ gs.dead = "" THEN gs.open.k ELSE 0
  \* (an earlier block of the same command that holds an invalid value has failed the run before the bare name is
  \* reached; a later one is never looked at)
      up == IF gs.usage # 0 THEN gs.usagep ELSE gs.open.p IN
  IF u # 0 /\ ~gs.posOnly /\ (\A i \in DOMAIN gs.blocks[u] : gs.blocks[u][i].p < up => BlockVal(d.named[u], gs.blocks[u][i]).ok) THEN [class |-> "stdout", kind |-> "help", path |-> <<d.named[u].head.names[1]>>]
  ELSE IF gs.help THEN [class |-> "stdout", kind |-> "help", path |-> gs.hp] ELSE GFinish(d, gs, envv)

(* ------------------------------------------------------------------ state machine *)
\* pairs of short flags of the level written as one item (name, letter: strings cannot be taken apart)
GFlagShorts(d) == UNION {{<<it.shorts[j], it.letters[j]>> : j \in DOMAIN it.shorts} : it \in {x \in GLeaves(d) : x.kind \in {"switch", "reqflag"}}}
GBundles(d) == IF "clusters" \in DOMAIN d.alpha /\ d.alpha.clusters
               THEN {[t |-> "cluster", s |-> "", v |-> "", ss |-> <<a[1], b[1]>>, last |-> "", hasv |-> FALSE, txt |-> "-" \o a[2] \o b[2]]
                     : a \in GFlagShorts(d), b \in GFlagShorts(d)}
               ELSE {}
GAlphabet(d) ==
  UNION {LeafItems(d, it) : it \in GLeaves(d)} \cup GBundles(d)
  \cup {[t |-> "word", s |-> w, v |-> "", txt |-> w] : w \in RangeOf(d.alpha.words)}
  \cup {[t |-> x, s |-> "", v |-> "", txt |-> (CASE x = "dd" -> "--" [] x = "help" -> "--help" [] x = "unk" -> "--zz")]
          : x \in RangeOf(d.alpha.extras)}

GEnvVars(d) == {it.env : it \in GLeaves(d)} \ {""}
GInit == /\ def \in Defs /\ env \in [GEnvVars(def) -> RangeOf(def.alpha.envvals)] /\ line = <<>> /\ st = GInitSt(def)
GNext == /\ Len(line) < def.alpha.maxlen
         /\ \E e \in GAlphabet(def) : line' = Append(line, e) /\ st' = GStep(def, st, e) /\ UNCHANGED <<def, env>>
GSpec == GInit /\ [][GNext]_vars
GOut  == GOutcome(def, st, env)

(* ------------------------------------------------------------------ properties *)
GTypeOK == GOut.class \in {"ok", "stderr", "stdout"}
GFunctional == st = GRun(def, GInitSt(def), line)
\* C07: items of two different branches of a bare/optional choice never yield a value
AltExclusive ==
  \A k \in DOMAIN def.named :
    LET f == def.named[k] IN
    (f.kind = "alt" /\ f.arity \in {"one", "opt"} /\
     Cardinality({b \in DOMAIN f.branches : \E it \in RangeOf(f.branches[b].fields) : it.kind # "pos" /\ st.acc[it.id] # <<>>}) >= 2)
      => GOut.class # "ok"
\* C07: a repeated choice delivers one value per consumed leftmost item, in command-line order of those items
\* C19: every value of an adjacent group is a block of neighbouring items: closed blocks are only ever
\*      appended, an item that is not a member closes the open block, and a cut block kills the line
AdjContiguous == [][/\ \A k \in DOMAIN st.blocks : IsPrefix(st.blocks[k], st'.blocks[k])
                    /\ (st.open.k # 0 /\ st'.open.k = st.open.k /\ st'.open.p = st.open.p /\ st'.open # st.open) =>
                          (Len(st'.open.filled) + Len(st'.open.words) = Len(st.open.filled) + Len(st.open.words) + 1
                           \/ st'.pending # "")]_vars
CutKills == [][(st.open.k # 0 /\ (st'.open.k # st.open.k \/ st'.open.p # st.open.p))
                => (Len(st'.blocks[st.open.k]) = Len(st.blocks[st.open.k]) + 1 \/ st'.dead # "" \/ st'.usage # 0
                    \/ st'.litfail > st.litfail)]_vars
GNoResurrection == [][st.dead # "" => GOutcome(def, st', env).class # "ok"]_vars
(* ------------------------------------------------------------------ C03 on choices *)
\* exchanging two neighbouring single-item occurrences of different named items - plain options or
\* members of a choice that yields a single value - leaves the outcome unchanged
FieldIxOf(d, id) == CHOOSE k \in DOMAIN d.named : id \in {x.id : x \in FieldLeaves(d.named[k])}
Swappable(d, e) ==
  /\ e.t \in {"name", "eq"} /\ GOwner(d, e.s) # {}
  /\ LET it == CHOOSE x \in GOwner(d, e.s) : TRUE  f == d.named[FieldIxOf(d, it.id)] IN
     /\ (e.t = "name") = (it.kind # "arg")
     /\ (IsLeaf(f) \/ (f.kind = "alt" /\ f.arity \in {"one", "opt"}))
GSwapCommutes ==
  (AdjFields(def) = {}) =>
  \A k \in 1..(Len(line) - 1) :
    LET a == line[k]  b == line[k + 1] IN
    (Swappable(def, a) /\ Swappable(def, b) /\ GOwner(def, a.s) # GOwner(def, b.s)
       /\ ~GRun(def, GInitSt(def), SubSeq(line, 1, k - 1)).posOnly) =>
      GOutcome(def, GRun(def, GInitSt(def), SubSeq(line, 1, k - 1) \o <<b, a>> \o SubSeq(line, k + 2, Len(line))), env) = GOut
(* ------------------------------------------------------------------ C14 on one level with choices and groups *)
\* upper bound: visible names of the level's items that match what was typed, completer values of the pending argument
GMayOffer(d, gs, p) ==
  IF gs.posOnly THEN {"--"} ELSE
  {Pref(it) : it \in {x \in GLeaves(d) : ~x.hidden /\ NameMatches(x, p)}}
  \cup (IF gs.pending # "" THEN UNION {RangeOf(x.completer) : x \in {y \in GLeaves(d) : y.id = gs.pending}} ELSE {})
  \cup UNION {IF d.named[k].kind = "adj" /\ d.named[k].head.kind = "cmd" /\ (p.k = "fresh" \/ (p.k = "word" /\ IsPrefix(p.cs, d.named[k].head.nchars[1])))
              THEN {d.named[k].head.names[1]} ELSE {} : k \in DOMAIN d.named}
  \cup {"--"}
\* lower bound for a fresh prefix: visible names of plain items not given yet, and of the members of a choice
\* none of whose branches has been given (items of adjacent groups are outside the property's lower bound)
GMustOffer(d, gs, p) ==
  IF gs.pending # "" \/ gs.posOnly \/ gs.win # 0 \/ (gs.open.k # 0 /\ (~Complete(d, gs) \/ d.named[gs.open.k].head.kind = "cmd")) \/ p.k \notin {"fresh", "dash", "long"} THEN {}
  ELSE UNION {LET f == d.named[k] IN
              IF IsLeaf(f)
              THEN (IF ~f.hidden /\ NameMatches(f, p) /\ ~(SingleUse(f) /\ gs.acc[f.id] # <<>>) THEN {Pref(f)} ELSE {})
              \* (a word nobody has claimed may be what the positional alternative of the choice takes: then it is given)
              ELSE IF f.kind = "alt" /\ ~f.hidden /\ HasPosBranch(f) /\ gs.pos # <<>> THEN {}
              ELSE IF f.kind = "alt" /\ ~f.hidden /\ \A it \in BranchLeaves(f) : gs.acc[it.id] = <<>>
              THEN {Pref(it) : it \in {x \in BranchLeaves(f) : ~x.hidden /\ NameMatches(x, p)}}
              ELSE IF f.kind = "alt" /\ ~f.hidden /\ f.arity \in {"one", "opt"}
              THEN \* the branch the user has started: its remaining required items
                   LET started == {b \in DOMAIN f.branches : \E it \in RangeOf(f.branches[b].fields) : it.kind # "pos" /\ gs.acc[it.id] # <<>>} IN
                   IF Cardinality(started) # 1 THEN {}
                   ELSE LET b == CHOOSE x \in started : TRUE IN
                        {Pref(it) : it \in {x \in RangeOf(f.branches[b].fields) : x.kind # "pos" /\ ~x.hidden /\ NameMatches(x, p) /\ gs.acc[x.id] = <<>>}}
              ELSE {} : k \in DOMAIN d.named}
GPartials(d) ==
  {[k |-> "fresh"], [k |-> "dash"], [k |-> "long", cs |-> <<>>]}
  \cup UNION {{[k |-> "long", cs |-> SubSeq(it.lchars[1], 1, n)] : n \in {1, Len(it.lchars[1]) - 1, Len(it.lchars[1])} \ {0}} : it \in {x \in GLeaves(d) : x.longs # <<>>}}
  \cup {[k |-> "short", s |-> it.shorts[1]] : it \in {x \in GLeaves(d) : x.shorts # <<>>}}
GViable(d, gs) ==
  /\ gs.dead = "" /\ ~gs.help
  /\ \A it \in GLeaves(d) : ((SingleUse(it) /\ AdjOf(d, it.id) = {}) => (Len(gs.acc[it.id]) <= 1))
  /\ \A it \in GLeaves(d) : ((it.kind = "arg") => (\A i \in DOMAIN gs.acc[it.id] : ~BadValue(it, gs.acc[it.id][i].v)))
GCompletionSandwich == \A p \in GPartials(def) : GMustOffer(def, st, p) \subseteq GMayOffer(def, st, p)
=============================================================================
