CONSTANT Preds <- MCPreds
INIT PInit
NEXT PNext
INVARIANTS StreamsAndStatus ValueOnlyOnSuccess
CHECK_DEADLOCK FALSE
