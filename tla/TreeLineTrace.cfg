CONSTANT Defs = {}
INIT VInit
NEXT VNext
INVARIANTS VOutOK VScope
POSTCONDITION AllConsumed
CHECK_DEADLOCK FALSE
