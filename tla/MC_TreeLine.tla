---------------------------- MODULE MC_TreeLine ----------------------------
EXTENDS TreeLine, Json, IOUtils
DefSeq == ndJsonDeserialize(IOEnv.DEFS)
MCDefs == RangeOf(DefSeq)
TEmit == PrintT(<<"REPLAY", ToJson([def |-> def.id, line |-> line, env |-> env, outside |-> st.root.outside, expect |-> TOut])>>)
\* C14 inside such a command: the bounds of the command's own level; names of the enclosing level may be offered too
TViable == IF st.k = 0 THEN Viable(st.root) ELSE (Viable(st.root) /\ GViable(Sub(def, st.k), st.g))
TPartials == IF st.k = 0 THEN Partials(RootView(def))
             ELSE {p \in GPartials(Sub(def, st.k)) : ~(p.k = "short" /\ Foreign(st.root, p.s)) /\ ~(p.k = "long" /\ ForeignLong(st.root, p.cs))}
TMust(p) == IF st.k = 0 THEN MustOffer(st.root, p) ELSE GMustOffer(Sub(def, st.k), st.g, p)
TMay(p)  == IF st.k = 0 THEN MayOffer(st.root, p) ELSE GMayOffer(Sub(def, st.k), st.g, p) \cup MayOffer(st.root, p)
TSandwich == \A p \in TPartials : TMust(p) \subseteq TMay(p)
TCEmit == TViable => PrintT(<<"REPLAY", ToJson([def |-> def.id, line |-> line, env |-> env, outside |-> FALSE, acmds |-> <<>>,
             comps |-> {[p |-> PartialText(p), must |-> TMust(p), may |-> TMay(p), pending |-> (IF st.k = 0 THEN st.root.pending # "" ELSE st.g.pending # "")]
                        : p \in TPartials}])>>)
=============================================================================
