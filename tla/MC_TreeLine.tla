---------------------------- MODULE MC_TreeLine ----------------------------
EXTENDS TreeLine, Json, IOUtils
DefSeq == ndJsonDeserialize(IOEnv.DEFS)
MCDefs == RangeOf(DefSeq)
TEmit == PrintT(<<"REPLAY", ToJson([def |-> def.id, line |-> line, env |-> env, outside |-> st.root.outside, expect |-> TOut])>>)
=============================================================================
