CONSTANT Defs <- MCDefs
SPECIFICATION Spec
VIEW DesignView
INVARIANTS TypeOK HelpWins AllDelivered
PROPERTIES HelpSticky NoResurrection DashDash ScopeAfterCommand
CHECK_DEADLOCK FALSE
