------------------------------ MODULE LexTrace ------------------------------
(* the items bpaf's tokeniser produced for recorded argument vectors (construct hook) must be the    *)
(* items Lex.tla assigns to the same bytes                                                            *)
EXTENDS Lex, Json, IOUtils
Rec == ndJsonDeserialize(IOEnv.TRACE)
VARIABLES l, bad
\* `-=...` (an `=` right after a single dash) is not fixed by the documentation: not judged
Outside(argv) == \E i \in DOMAIN argv : Len(argv[i]) >= 2 /\ argv[i][1] = DASH /\ argv[i][2] = EQ
Init == l = 1 /\ bad = 0
Next == /\ l <= Len(Rec) /\ l' = l + 1
        /\ LET r == Rec[l]  x == LexAll(r.argv, ToSet(r.flags), ToSet(r.args), FALSE) IN
           IF Outside(r.argv) \/ (x.amb = r.amb /\ (x.amb \/ x.toks = r.toks)) THEN bad' = bad
           ELSE PrintT(<<"REJECT", l, ToJson(x.toks)>>) /\ bad' = bad + 1
AllConsumed == IF TLCGet("stats").diameter - 1 = Len(Rec) THEN TRUE
               ELSE Print(<<"INCOMPLETE", TLCGet("stats").diameter, Len(Rec)>>, FALSE)
=============================================================================
