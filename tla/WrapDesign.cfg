INIT DInit
NEXT DNext
INVARIANT GreedyAccepted
CHECK_DEADLOCK FALSE
