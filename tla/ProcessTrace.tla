---------------------------- MODULE ProcessTrace ----------------------------
(* every recorded process run must be a behaviour of Process: each observed event is bound to the *)
(* action of the same name with the logged arguments; a run whose next event is not enabled is    *)
(* reported and skipped, so every run is judged                                                   *)
EXTENDS Process, Json, IOUtils
Rec == ndJsonDeserialize(IOEnv.TRACE)
VARIABLES l, k          \* run index, event index inside the run
tvars == <<phase, pred, outs, body, code, l, k>>
Ev == Rec[l].events[k]
\* the class of the prediction is itself what CmdLine.tla demands for this line (Rec[l].spec, written by
\* the specification's replay generator), unless the line is outside the properties' quantifier
SpecAgrees == Rec[l].outside \/ Rec[l].spec = "any" \/ Rec[l].spec = Rec[l].pred.class
Bind == CASE Ev.e = "spawn" -> SpecAgrees /\ Spawn(Rec[l].pred)
          [] Ev.e = "out"   -> Out(Ev.stream, Ev.text)
          [] Ev.e = "body"  -> Body
          [] Ev.e = "exit"  -> Exit(Ev.code)
TInit == PInit /\ l = 1 /\ k = 1
Advance == IF k = Len(Rec[l].events) THEN l' = l + 1 /\ k' = 1 ELSE l' = l /\ k' = k + 1
TNext == /\ l <= Len(Rec)
         /\ IF ENABLED Bind THEN Bind /\ Advance
            ELSE /\ PrintT(<<"REJECT", l, k>>)
                 /\ l' = l + 1 /\ k' = 1 /\ phase' = "done" /\ UNCHANGED <<pred, outs, body, code>>
AllConsumed == IF l = Len(Rec) + 1 THEN TRUE ELSE Print(<<"INCOMPLETE", l>>, FALSE)
Done == l = Len(Rec) + 1
=============================================================================
