---- MODULE HistoryTrace ----
(* recorded sessions: [session, k, key, op, class, hash]; a record whose Answer is not enabled is reported *)
EXTENDS History, Json, IOUtils
Rec == ndJsonDeserialize(IOEnv.TRACE)
VARIABLES l, bad, sess
TInit == HInit /\ l = 1 /\ bad = 0 /\ sess = 0 - 1
TNext == /\ l <= Len(Rec)
         /\ LET r == Rec[l] IN
            IF r.session # sess
            THEN NewSession /\ sess' = r.session /\ UNCHANGED <<l, bad>>
            ELSE /\ sess' = sess /\ l' = l + 1
                 /\ IF ENABLED Answer(r.key, r.op, r.class, r.hash)
                    THEN Answer(r.key, r.op, r.class, r.hash) /\ bad' = bad
                    ELSE /\ PrintT(<<"REJECT", l, IF r.class \in Allowed(r.op) THEN "impure" ELSE "class">>)
                         /\ bad' = bad + 1 /\ UNCHANGED <<memo, last>>
AllConsumed == IF l = Len(Rec) + 1 THEN TRUE ELSE Print(<<"INCOMPLETE", l>>, FALSE)
====
