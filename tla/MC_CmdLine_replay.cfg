CONSTANT Defs <- MCDefs
SPECIFICATION Spec
INVARIANTS TypeOK Functional HelpWins AllDelivered Emit
PROPERTIES ExactlyOnce
CHECK_DEADLOCK FALSE
