----------------------------- MODULE ShellDesign -----------------------------
(* design check of the quoting: for every string of up to 4 characters over a hostile alphabet, the  *)
(* lexer reads bpaf's quoted form back as exactly one inert word with exactly that text; and a word  *)
(* written without quotes is inert only if it has no active character                               *)
EXTENDS ShellWords
Sigma == {"'", "\\", "$", "(", ")", ";", " ", "a", "`", "\n", "|"}
VARIABLE s
DInit == s \in UNION {[1..n -> Sigma] : n \in 0..4}
DNext == UNCHANGED s
QuoteInert == LET r == Lex(Quote(s)) IN
              r.ok /\ Len(r.toks) = 1 /\ r.toks[1].t = "w" /\ r.toks[1].cs = s /\ r.toks[1].inert
RawNotInert == LET r == Lex(s) IN
               (RangeOf(s) \cap (Active \cup Ops \cup {"'", "\\", " ", "\n"}) # {}) =>
                   ~(r.ok /\ Len(r.toks) = 1 /\ r.toks[1].t = "w" /\ r.toks[1].cs = s /\ r.toks[1].inert)
=============================================================================
