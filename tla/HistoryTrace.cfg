CONSTANTS Calls = {}
Results = {}
INIT TInit
NEXT TNext
INVARIANT TotalInv
CHECK_DEADLOCK FALSE
