------------------------------- MODULE Markup -------------------------------
(***************************************************************************)
(* C16 - acceptors for the generated HTML and manpage documents.           *)
(*  HTML   : a pushdown over tag events - every tag is one of bpaf's own,   *)
(*           opening and closing tags nest properly, the document ends     *)
(*           with an empty stack; a `<` that does not start such a tag     *)
(*           (user text opening a tag) is reported by the lexer as "stray".*)
(*  manpage: a line machine - a line starting with a control character is  *)
(*           one of bpaf's requests, and every backslash anywhere starts   *)
(*           one of bpaf's own escapes.                                    *)
(* The harness lexes the rendered text into events; this module decides.   *)
(***************************************************************************)
EXTENDS Naturals, Sequences, FiniteSets, TLC, Json, IOUtils
Rec == ndJsonDeserialize(IOEnv.TRACE)     \* [def, kind \in {"html","manpage"}, events : Seq(event)]

HtmlTags == {"p", "div", "dl", "dt", "dd", "li", "tt", "b", "i"}
HtmlVoid == {"br"}
AttrOK(tag, attr) == attr = "" \/ (tag = "div" /\ attr = "style='padding-left: 0.5em'")

Requests == {".TH", ".SH", ".SS", ".TP", ".PP", ".nf", ".fi", ".br", ".ie", ".el"}
Escapes  == {"\\fB", "\\fI", "\\fR", "\\fP", "\\-", "\\\\", "\\&", "\\*(Aq", "\\ "}
Preamble == {".ie \\n(.g .ds Aq \\(aq", ".el .ds Aq '"}

RangeOf(s) == {s[i] : i \in DOMAIN s}
VARIABLES l, k, stack, bad
mvars == <<l, k, stack, bad>>
Ev == Rec[l].events[k]          \* the harness closes every document with an "eof" event
\* HTML actions
Open  == Ev.e = "open"  /\ Ev.tag \in HtmlTags /\ AttrOK(Ev.tag, Ev.attr) /\ stack' = Append(stack, Ev.tag)
Close == Ev.e = "close" /\ stack # <<>> /\ stack[Len(stack)] = Ev.tag /\ stack' = SubSeq(stack, 1, Len(stack) - 1)
Void  == Ev.e = "void"  /\ Ev.tag \in HtmlVoid /\ UNCHANGED stack
HEof  == Ev.e = "eof"   /\ stack = <<>> /\ UNCHANGED stack
\* manpage actions
Ctl   == Ev.e = "ctl"  /\ (Ev.line \in Preamble \/ (Ev.req \in Requests /\ RangeOf(Ev.esc) \subseteq Escapes)) /\ UNCHANGED stack
Text  == Ev.e = "text" /\ RangeOf(Ev.esc) \subseteq Escapes /\ UNCHANGED stack
MEof  == Ev.e = "eof" /\ UNCHANGED stack
Accept == IF Rec[l].kind = "html" THEN Open \/ Close \/ Void \/ HEof ELSE Ctl \/ Text \/ MEof
MInit == l = 1 /\ k = 1 /\ stack = <<>> /\ bad = 0
MNext == /\ l <= Len(Rec)
         /\ IF ENABLED Accept
            THEN /\ Accept /\ bad' = bad
                 /\ IF Ev.e = "eof" THEN l' = l + 1 /\ k' = 1 ELSE l' = l /\ k' = k + 1
            ELSE /\ PrintT(<<"REJECT", l, k, ToJson(Ev), ToJson(stack)>>)
                 /\ l' = l + 1 /\ k' = 1 /\ stack' = <<>> /\ bad' = bad + 1
AllConsumed == IF l = Len(Rec) + 1 THEN TRUE ELSE Print(<<"INCOMPLETE", l>>, FALSE)
StackTagsKnown == RangeOf(stack) \subseteq HtmlTags
=============================================================================
