------------------------------ MODULE TreeLine ------------------------------
(***************************************************************************)
(* Subcommands whose own level contains choices and adjacent groups.       *)
(* The root is a CmdLine level (named items + a command tail); the level   *)
(* of each command is a GroupLine level.  The composition is the scoping   *)
(* rule of C08 stated as a definition: once a command name is taken, every *)
(* later item is read by that command's level alone, exactly as if the     *)
(* level were a program of its own, and the enclosing level sees nothing   *)
(* of it (C08); inside, blocks and choices work as at top level (C07 C19). *)
(* What is typed before the name is read by the root.                      *)
(***************************************************************************)
EXTENDS GroupLine

\* the root as CmdLine sees it: commands with an empty level
RootView(d) == [d EXCEPT !.tail.cmds = [k \in DOMAIN d.tail.cmds |-> [d.tail.cmds[k] EXCEPT !.level = d.empty]]]
Sub(d, k)   == d.tail.cmds[k].level
NoSub       == [none |-> TRUE]

TInitSt(d) == [root |-> InitSt(RootView(d)), k |-> 0, g |-> NoSub]
TStep(d, ts, e) ==
  IF ts.k = 0
  THEN LET s2 == Step(ts.root, e) IN
       IF Len(s2.frames) = 2
       THEN [root |-> s2, k |-> s2.frames[1].child, g |-> GInitSt(Sub(d, s2.frames[1].child))]
       ELSE [ts EXCEPT !.root = s2]
  ELSE [ts EXCEPT !.g = GStep(Sub(d, ts.k), ts.g, e)]
RECURSIVE TRun(_, _, _)
TRun(d, ts, l) == IF l = <<>> THEN ts ELSE TRun(d, TStep(d, ts, Head(l)), Tail(l))

\* the command's value takes the place of the (empty) value the root view computed for it
WithChild(v, x) ==
  LET n == Len(v.t)  last == v.t[n] IN
  [t |-> [v.t EXCEPT ![n] = IF "some" \in DOMAIN last THEN [some |-> [last.some EXCEPT !.x = x]] ELSE [last EXCEPT !.x = x]]]

TOutcome(d, ts, envv) ==
  IF ts.k = 0 THEN Outcome(ts.root, envv)
  ELSE LET ro == Outcome(ts.root, envv)
           co == GOutcome(Sub(d, ts.k), ts.g, envv) IN
       IF ro.class = "stdout" THEN ro                                      \* asked of the root before the name
       ELSE IF co.class = "stdout" THEN [co EXCEPT !.path = ts.root.path \o @]  \* asked of the command: its own help
       ELSE IF ro.class = "stderr" THEN ro
       ELSE IF co.class = "stderr" THEN co
       ELSE [class |-> "ok", value |-> WithChild(ro.value, co.value)]

TAlphabet(d, ts) == IF ts.k = 0 THEN Alphabet(RootView(d)) ELSE GAlphabet(Sub(d, ts.k))

TInit == /\ def \in Defs /\ env = <<>> /\ line = <<>> /\ st = TInitSt(def)
TNext == /\ Len(line) < def.alpha.maxlen
         /\ \E e \in TAlphabet(def, st) : line' = Append(line, e) /\ st' = TStep(def, st, e) /\ UNCHANGED <<def, env>>
TSpec == TInit /\ [][TNext]_vars
TOut  == TOutcome(def, st, env)

(* ------------------------------------------------------------------ properties *)
TTypeOK == TOut.class \in {"ok", "stderr", "stdout"}
TFunctional == st = TRun(def, TInitSt(def), line)
\* C08: items typed after the command name never change what the enclosing level collected, and the command's
\* part of the outcome is the outcome of its level run on its own on exactly those items
TScope ==
  st.k # 0 =>
    LET n == CHOOSE i \in 1..Len(line) : Len(Run(InitSt(RootView(def)), SubSeq(line, 1, i)).frames) = 2
                                         /\ \A j \in 1..(i - 1) : Len(Run(InitSt(RootView(def)), SubSeq(line, 1, j)).frames) = 1 IN
    /\ st.root = Run(InitSt(RootView(def)), SubSeq(line, 1, n))
    /\ st.g = GRun(Sub(def, st.k), GInitSt(Sub(def, st.k)), SubSeq(line, n + 1, Len(line)))
\* a line killed inside the command never yields a value, whatever follows (C05)
TNoResurrection == (st.k # 0 /\ st.g.dead # "") => TOut.class # "ok"
\* help asked inside the command describes the command (C10)
THelpInside == (st.k # 0 /\ st.g.help /\ ~st.root.helpAt.set /\ ~st.root.verAt.set /\ ~st.root.ambig)
               => (TOut.class = "stdout" /\ TOut.path[1] = def.tail.cmds[st.k].names[1])
=============================================================================
