------------------------------- MODULE Ledger -------------------------------
(***************************************************************************)
(* The consumption ledger protocol, structured like the implementation:    *)
(* one action per critical step of bpaf's `State` and of the wrappers that *)
(* fork, commit and roll it back.  A nondeterministic environment stands   *)
(* for "any parser program": TLC explores every well nested sequence of    *)
(* operations, i.e. it quantifies over combinator shapes.                  *)
(*   led    item i is "U" (unparsed), "C" (kept for a conflict report, still*)
(*          present) or "P" (parsed)                                       *)
(*   lo,hi  the scope (half open) the current parser may consume from      *)
(*   stack  frames pushed by wrappers: fork (optional/many/fallback),      *)
(*          cmd (subcommand), adj (adjacent group)                         *)
(* Theorem checked: a verdict `ok` computed on a NARROWED scope still      *)
(* implies that every item of the line was parsed (C05), because a command *)
(* is entered only at the first present item of its scope (C08) and        *)
(* adjacent groups restore the scope they narrowed (C19).                  *)
(***************************************************************************)
EXTENDS Naturals, Sequences, FiniteSets, TLC
CONSTANTS N, MaxDepth
VARIABLES led, lo, hi, stack, verdict
vars == <<led, lo, hi, stack, verdict>>
Present(l, i) == l[i] \in {"U", "C"}
InScope(i) == lo <= i /\ i < hi
PresentInScope == {i \in 1..N : InScope(i) /\ Present(led, i)}
Min(S) == CHOOSE x \in S : \A y \in S : x <= y
Init == /\ led = [i \in 1..N |-> "U"] /\ lo = 1 /\ hi = N + 1 /\ stack = <<>> /\ verdict = "run"
Running == verdict = "run"
Top == stack[Len(stack)]
Pop == SubSeq(stack, 1, Len(stack) - 1)
Frame(op) == [op |-> op, led |-> led, lo |-> lo, hi |-> hi]

Remove(i) == /\ Running /\ InScope(i) /\ Present(led, i)
             /\ led' = [led EXCEPT ![i] = "P"] /\ UNCHANGED <<lo, hi, stack, verdict>>
Fork == /\ Running /\ Len(stack) < MaxDepth
        /\ stack' = Append(stack, Frame("fork")) /\ UNCHANGED <<led, lo, hi, verdict>>
Commit == /\ Running /\ stack # <<>> /\ Top.op = "fork" /\ stack' = Pop /\ UNCHANGED <<led, lo, hi, verdict>>
Rollback == /\ Running /\ stack # <<>> /\ Top.op = "fork"
            /\ led' = Top.led /\ lo' = Top.lo /\ hi' = Top.hi /\ stack' = Pop /\ UNCHANGED verdict
\* a subcommand is entered at the first present item of the scope, which it consumes
EnterCmd == /\ Running /\ Len(stack) < MaxDepth /\ PresentInScope # {}
            /\ LET i == Min(PresentInScope) IN
               /\ led' = [led EXCEPT ![i] = "P"] /\ lo' = i
               /\ stack' = Append(stack, Frame("cmd"))
            /\ UNCHANGED <<hi, verdict>>
\* it returns a value only when its scope is exhausted; a plain command keeps the narrowed scope
ExitCmdOk == /\ Running /\ stack # <<>> /\ Top.op = "cmd" /\ PresentInScope = {}
             /\ stack' = Pop /\ UNCHANGED <<led, lo, hi, verdict>>
\* adjacent group: pick a start, work inside the run of present items from there, restore the scope
AdjEnter == /\ Running /\ Len(stack) < MaxDepth
            /\ \E s \in PresentInScope :
                 LET run == {j \in s..(hi - 1) : \A k \in s..j : Present(led, k)} IN
                 /\ lo' = s /\ hi' = s + Cardinality(run)
                 /\ stack' = Append(stack, Frame("adj") @@ [start |-> s])
            /\ UNCHANGED <<led, verdict>>
Consumed == {i \in 1..N : Top.led[i] # "P" /\ led[i] = "P"}
AdjAccept == /\ Running /\ stack # <<>> /\ Top.op = "adj" /\ Consumed # {}
             /\ \A i \in Consumed : \A j \in Top.start..i : j \in Consumed      \* one block, from its first item
             /\ lo' = Top.lo /\ hi' = Top.hi /\ stack' = Pop /\ UNCHANGED <<led, verdict>>
AdjFail == /\ Running /\ stack # <<>> /\ Top.op = "adj"
           /\ led' = Top.led /\ lo' = Top.lo /\ hi' = Top.hi /\ stack' = Pop /\ UNCHANGED verdict
Verdict == /\ Running /\ stack = <<>>
           /\ verdict' = IF PresentInScope = {} THEN "ok" ELSE "unconsumed"
           /\ UNCHANGED <<led, lo, hi, stack>>
Next == \/ \E i \in 1..N : Remove(i) \/ Fork \/ Commit \/ Rollback \/ EnterCmd \/ ExitCmdOk
        \/ AdjEnter \/ AdjAccept \/ AdjFail \/ Verdict
Spec == Init /\ [][Next]_vars
AllConsumedOnOk == verdict = "ok" => \A i \in 1..N : led[i] = "P"
ScopeSane == 1 <= lo /\ lo <= hi /\ hi <= N + 1
=============================================================================
