CONSTANT Defs = {}
INIT TInit
NEXT TNext
INVARIANTS TOutOK TExclusive
POSTCONDITION AllConsumed
CHECK_DEADLOCK FALSE
