CONSTANT Defs <- MCDefs
SPECIFICATION Spec
INVARIANTS TypeOK RespellStutters
CHECK_DEADLOCK FALSE
