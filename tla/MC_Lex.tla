------------------------------- MODULE MC_Lex -------------------------------
(* design check of the tokeniser contract: for 1- and 2-byte short names, ASCII and non-ASCII long   *)
(* names and every value of up to 3 bytes over {-,=,a,space,0xC3,0xB1,0xFF} the `=` spellings carry   *)
(* exactly the name and exactly the value bytes; the glued spelling of a text value agrees with them  *)
EXTENDS Lex
Alphabet == {45, 61, 97, 32, 195, 177, 255}
Shorts == {<<110>>, <<195, 177>>}
Longs == {<<110, 97, 109, 101>>, <<110, 195, 164, 109>>}
VARIABLES s, lg, v
Init == s \in Shorts /\ lg \in Longs /\ v \in UNION {[1..n -> Alphabet] : n \in 0..3}
Next == UNCHANGED <<s, lg, v>>
Lemma == SpellingLemma(s, lg, v)
\* -nVALUE: when the value is text and does not begin with `=` the glued form carries the same name and bytes
Glued == (v # <<>> /\ v[1] # EQ) =>
            LexItem(<<DASH>> \o s \o v, {}, {s}).toks = <<[k |-> "short", n |-> s, adj |-> TRUE], [k |-> "argword", v |-> v]>>
=============================================================================
