CONSTANT Defs <- MCDefs
SPECIFICATION GSpec
INVARIANTS GTypeOK GCompletionSandwich GCEmit
CHECK_DEADLOCK FALSE
