CONSTANT Defs <- MCDefs
SPECIFICATION Spec
INVARIANTS TypeOK SentenceIffOk
CHECK_DEADLOCK FALSE
