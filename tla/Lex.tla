-------------------------------- MODULE Lex --------------------------------
(***************************************************************************)
(* C02 - the tokeniser contract: from the bytes of one OS string to items. *)
(* Only the documented rules:                                              *)
(*   --name            long name                                           *)
(*   --name=value      long name with an attached value: the name is the   *)
(*                     text up to the FIRST `=`, the value EVERY byte after *)
(*   -n  -n=value      short name (one character, of however many bytes)   *)
(*   -nvalue  -abc     resolved against the declared short flags and short *)
(*                     arguments: flags*, then at most one argument whose   *)
(*                     value is the rest; an undeclared letter makes the    *)
(*                     whole item a plain word; a letter declared both ways *)
(*                     is an ambiguity                                      *)
(*   --                ends option processing: everything after is data    *)
(*   anything else     a word                                              *)
(* Names must be text (UTF-8); values are arbitrary bytes.                 *)
(* Bytes are integers 0..255; a character is a sequence of bytes.          *)
(***************************************************************************)
EXTENDS Naturals, Sequences, FiniteSets, TLC, SequencesExt

DASH == 45
EQ   == 61

\* length in bytes of the character starting with lead byte b (0 = not a lead byte)
CharLen(b) == IF b < 128 THEN 1 ELSE IF b >= 194 /\ b <= 223 THEN 2 ELSE IF b >= 224 /\ b <= 239 THEN 3
              ELSE IF b >= 240 /\ b <= 244 THEN 4 ELSE 0
IsCont(b) == b >= 128 /\ b <= 191
\* split bytes into characters; [ok |-> FALSE] when the bytes are not text
RECURSIVE Chars(_)
Chars(bs) ==
  IF bs = <<>> THEN [ok |-> TRUE, cs |-> <<>>]
  ELSE LET n == CharLen(bs[1]) IN
       IF n = 0 \/ n > Len(bs) \/ \E i \in 2..n : ~IsCont(bs[i]) THEN [ok |-> FALSE, cs |-> <<>>]
       ELSE LET r == Chars(SubSeq(bs, n + 1, Len(bs))) IN
            IF r.ok THEN [ok |-> TRUE, cs |-> <<SubSeq(bs, 1, n)>> \o r.cs] ELSE r
IsText(bs) == Chars(bs).ok
\* the character at the front of bs when it is well formed (the rest may be anything)
FirstChar(bs) == LET n == CharLen(bs[1]) IN
                 IF n = 0 \/ n > Len(bs) \/ \E i \in 2..n : ~IsCont(bs[i]) THEN <<>> ELSE SubSeq(bs, 1, n)

FirstEq(bs) == LET E == {i \in DOMAIN bs : bs[i] = EQ} IN IF E = {} THEN 0 ELSE CHOOSE i \in E : \A j \in E : i <= j
RECURSIVE Flatten(_)
Flatten(cs) == IF cs = <<>> THEN <<>> ELSE Head(cs) \o Flatten(Tail(cs))

Word(bs)    == <<[k |-> "word", v |-> bs]>>
\* the body of a single-dash item (bytes after the dash), resolved against the declared short names:
\*   c            a short name on its own
\*   c=VALUE      name and value, VALUE = every byte after the `=`
\*   cVALUE       when c is a declared argument: VALUE = every remaining byte (it may contain `=`)
\*   cREST        when c is a declared flag: REST is resolved the same way (a cluster)
\*   anything else: a word (an undeclared first letter followed by `name=value` text keeps bpaf's reading
\*   "first character is the name", which is an error either way)
\* result: [amb, word, toks]
RECURSIVE ShortBody(_, _, _, _)
ShortBody(body, flags, args, top) ==
  LET c == FirstChar(body) IN
  IF c = <<>> THEN [amb |-> FALSE, word |-> TRUE, toks |-> <<>>]
  ELSE LET rest == SubSeq(body, Len(c) + 1, Len(body)) IN
    IF rest = <<>>
    THEN \* a lone letter is a short name whatever it is; inside a cluster the last letter must be declared too
         IF top \/ c \in flags \/ c \in args
         THEN (IF ~top /\ c \in flags /\ c \in args THEN [amb |-> TRUE, word |-> FALSE, toks |-> <<>>]
               ELSE [amb |-> FALSE, word |-> FALSE, toks |-> <<[k |-> "short", n |-> c, adj |-> FALSE]>>])
         ELSE [amb |-> FALSE, word |-> TRUE, toks |-> <<>>]
    ELSE IF rest[1] = EQ
    THEN [amb |-> FALSE, word |-> FALSE,
          toks |-> <<[k |-> "short", n |-> c, adj |-> TRUE], [k |-> "argword", v |-> SubSeq(rest, 2, Len(rest))]>>]
    ELSE IF c \in flags /\ c \in args THEN [amb |-> TRUE, word |-> FALSE, toks |-> <<>>]
    ELSE IF c \in args
    THEN [amb |-> FALSE, word |-> FALSE, toks |-> <<[k |-> "short", n |-> c, adj |-> TRUE], [k |-> "argword", v |-> rest]>>]
    ELSE IF c \in flags
    THEN LET r == ShortBody(rest, flags, args, FALSE) IN
         IF r.amb \/ r.word THEN r
         ELSE [amb |-> FALSE, word |-> FALSE, toks |-> <<[k |-> "short", n |-> c, adj |-> FALSE]>> \o r.toks]
    ELSE IF FirstEq(rest) > 0
    THEN [amb |-> FALSE, word |-> FALSE, toks |-> <<[k |-> "short", n |-> c, adj |-> TRUE], [k |-> "argword", v |-> rest]>>]
    ELSE [amb |-> FALSE, word |-> TRUE, toks |-> <<>>]

\* one OS string outside positional-only mode: [toks, dd (it was the `--` marker), amb]
LexItem(bs, flags, args) ==
  LET R(t) == [toks |-> t, dd |-> FALSE, amb |-> FALSE] IN
  IF Len(bs) < 2 \/ bs[1] # DASH THEN R(Word(bs))
  ELSE IF bs = <<DASH, DASH>> THEN [toks |-> <<[k |-> "posword", v |-> bs]>>, dd |-> TRUE, amb |-> FALSE]
  ELSE IF bs[2] = DASH
  THEN \* long
       LET body == SubSeq(bs, 3, Len(bs))  e == FirstEq(body) IN
       IF e = 0 THEN (IF IsText(body) THEN R(<<[k |-> "long", n |-> body, adj |-> FALSE]>>) ELSE R(Word(bs)))
       ELSE LET name == SubSeq(body, 1, e - 1) IN
            IF IsText(name) THEN R(<<[k |-> "long", n |-> name, adj |-> TRUE],
                                     [k |-> "argword", v |-> SubSeq(body, e + 1, Len(body))]>>)
            ELSE R(Word(bs))
  ELSE LET r == ShortBody(SubSeq(bs, 2, Len(bs)), flags, args, TRUE) IN
       IF r.amb THEN [toks |-> Word(bs), dd |-> FALSE, amb |-> TRUE]
       ELSE IF r.word THEN R(Word(bs)) ELSE R(r.toks)

\* a whole argument vector
RECURSIVE LexAll(_, _, _, _)
LexAll(argv, flags, args, posOnly) ==
  IF argv = <<>> THEN [toks |-> <<>>, amb |-> FALSE]
  ELSE IF posOnly THEN LET r == LexAll(Tail(argv), flags, args, TRUE) IN
                       [toks |-> <<[k |-> "posword", v |-> Head(argv)]>> \o r.toks, amb |-> r.amb]
  ELSE LET x == LexItem(Head(argv), flags, args) IN
       IF x.amb THEN [toks |-> x.toks, amb |-> TRUE]            \* tokenising stops at the ambiguous item
       ELSE LET r == LexAll(Tail(argv), flags, args, x.dd) IN [toks |-> x.toks \o r.toks, amb |-> r.amb]

(* ------------------------------------------------------------------ properties of the contract itself *)
\* the five spellings of one argument occurrence carry the same name and the same value bytes
SpellingLemma(nameShort, nameLong, v) ==
  LET S == LexItem(<<DASH>> \o nameShort \o <<EQ>> \o v, {}, {nameShort})
      L == LexItem(<<DASH, DASH>> \o nameLong \o <<EQ>> \o v, {}, {nameShort}) IN
  /\ S.toks = <<[k |-> "short", n |-> nameShort, adj |-> TRUE], [k |-> "argword", v |-> v]>>
  /\ L.toks = <<[k |-> "long", n |-> nameLong, adj |-> TRUE], [k |-> "argword", v |-> v]>>
=============================================================================
