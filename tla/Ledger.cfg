CONSTANTS N = 4
MaxDepth = 3
SPECIFICATION Spec
INVARIANTS AllConsumedOnOk ScopeSane
CHECK_DEADLOCK FALSE
