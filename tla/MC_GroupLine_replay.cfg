CONSTANT Defs <- MCDefs
SPECIFICATION GSpec
INVARIANTS GTypeOK GFunctional AltExclusive GEmit
PROPERTIES AdjContiguous CutKills GNoResurrection
CHECK_DEADLOCK FALSE
