---- MODULE MC_Sentence ----
EXTENDS Sentence, Json, IOUtils
DefSeq == ndJsonDeserialize(IOEnv.DEFS)
MCDefs == RangeOf(DefSeq)
====
