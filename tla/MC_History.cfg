CONSTANTS Calls <- MCCalls
Results <- MCResults
INIT HInit
NEXT HNext
INVARIANTS PureInv TotalInv
CHECK_DEADLOCK FALSE
