//! Running the real parser and projecting the outcome to what the specification talks about.
use crate::build::{build_options, os};
use crate::val::{dec, enc, Val};
use bpaf::{Args, OptionParser, ParseFailure};
use serde_json::{json, Value as J};
use std::ffi::OsString;
use std::panic::{catch_unwind, AssertUnwindSafe};

pub const APP: &str = "app";

fn s<'a>(j: &'a J, k: &str) -> &'a str {
    j.get(k).and_then(J::as_str).unwrap_or("")
}

/// turn one abstract line item into argv elements (byte strings)
pub fn concretize_item(it: &J, out: &mut Vec<Vec<u8>>) {
    // the specification gives the exact spelling of every abstract item
    if let Some(txt) = it.get("txt").and_then(J::as_str) {
        out.push(dec(txt));
        return;
    }
    let t = s(it, "t");
    let sv = dec(s(it, "s"));
    let vv = dec(s(it, "v"));
    match t {
        "name" | "word" | "raw" => out.push(sv),
        "eq" => {
            let mut x = sv;
            x.push(b'=');
            x.extend(vv);
            out.push(x);
        }
        "glued" => {
            let mut x = sv;
            x.extend(vv);
            out.push(x);
        }
        "sep" => {
            out.push(sv);
            out.push(vv);
        }
        "cluster" => {
            let mut x = vec![b'-'];
            for n in it["ss"].as_array().unwrap() {
                x.extend(&dec(n.as_str().unwrap())[1..]);
            }
            if it.get("eq").and_then(J::as_bool).unwrap_or(false) {
                x.push(b'=');
            }
            x.extend(vv);
            out.push(x);
            if let Some(w) = it.get("w").and_then(J::as_str) {
                out.push(dec(w));
            }
        }
        "dd" => out.push(b"--".to_vec()),
        "help" => out.push(if sv.is_empty() { b"--help".to_vec() } else { sv }),
        "ver" => out.push(if sv.is_empty() { b"--version".to_vec() } else { sv }),
        "unk" => out.push(if sv.is_empty() { b"--zz".to_vec() } else { sv }),
        other => panic!("unknown abstract item kind {:?} in {}", other, it),
    }
}

pub fn concretize(line: &J) -> Vec<OsString> {
    let mut out = Vec::new();
    for it in line.as_array().map(|v| v.as_slice()).unwrap_or(&[]) {
        if let Some(x) = it.as_str() {
            out.push(dec(x));
        } else {
            concretize_item(it, &mut out);
        }
    }
    out.iter().map(|b| os(b)).collect()
}

#[derive(Clone, Debug)]
pub struct Obs {
    pub class: &'static str, // ok | stdout | stderr | completion | panic
    pub value: Option<J>,
    pub text: String,
    pub full: bool,
}

pub struct Built {
    pub def: J,
    pub parser: OptionParser<Val>,
}

pub fn build(def: &J) -> Result<Built, String> {
    let d = def.clone();
    catch_unwind(AssertUnwindSafe(|| build_options(&d)))
        .map(|parser| Built {
            def: def.clone(),
            parser,
        })
        .map_err(|e| panic_text(&e))
}

pub fn panic_text(e: &Box<dyn std::any::Any + Send>) -> String {
    if let Some(s) = e.downcast_ref::<&str>() {
        s.to_string()
    } else if let Some(s) = e.downcast_ref::<String>() {
        s.clone()
    } else {
        "panic".to_string()
    }
}

pub struct RunOpts<'a> {
    pub name: Option<&'a str>,
    pub comp: Option<usize>,
}

pub fn run(b: &Built, argv: &[OsString], o: &RunOpts) -> Obs {
    // parsing *and* rendering of the outcome run under catch_unwind: a panic of the code under test
    // is an observed outcome, never a failure of the harness
    let r = catch_unwind(AssertUnwindSafe(|| {
        #[allow(unused_mut)]
        let mut args = Args::from(argv);
        if let Some(n) = o.name {
            args = args.set_name(n);
        }
        #[cfg(feature = "autocomplete")]
        if let Some(c) = o.comp {
            args = args.set_comp(c);
        }
        let res = b.parser.run_inner(args);
        // the accessors a program (or a test) uses on a failure agree with the failure itself: exit status 0 for
        // output meant for stdout, 1 for errors; the unwrapped text is the text that is printed
        if let Err(pf) = &res {
            let (code, text) = match pf {
                ParseFailure::Stdout(d, full) => (0, d.monochrome(*full)),
                ParseFailure::Completion(sx) => (0, sx.clone()),
                ParseFailure::Stderr(d) => (1, d.monochrome(true)),
            };
            let unwrapped = match pf {
                ParseFailure::Stderr(_) => pf.clone().unwrap_stderr(),
                _ => pf.clone().unwrap_stdout(),
            };
            if pf.clone().exit_code() != code || unwrapped != text {
                return Obs {
                    class: "apidiff",
                    value: None,
                    text: format!("exit_code/unwrap disagree with the failure: {} {:?}", pf.clone().exit_code(), unwrapped),
                    full: false,
                };
            }
        }
        match res {
            Ok(v) => Obs {
                class: "ok",
                value: Some(v.to_json()),
                text: String::new(),
                full: false,
            },
            Err(ParseFailure::Stdout(doc, full)) => Obs {
                class: "stdout",
                value: None,
                text: doc.monochrome(full),
                full,
            },
            Err(ParseFailure::Completion(sx)) => Obs {
                class: "completion",
                value: None,
                text: sx,
                full: false,
            },
            Err(ParseFailure::Stderr(doc)) => Obs {
                class: "stderr",
                value: None,
                text: doc.monochrome(true),
                full: true,
            },
        }
    }));
    match r {
        Ok(o) => o,
        Err(e) => Obs {
            class: "panic",
            value: None,
            text: panic_text(&e),
            full: false,
        },
    }
}

/// command path announced by a help text: the words following the application name on the
/// usage line for as long as they are subcommand names of the definition tree
pub fn help_path(def: &J, text: &str) -> Option<Vec<String>> {
    let line = text.lines().find(|l| l.starts_with("Usage: "))?;
    let mut words = line["Usage: ".len()..].split_whitespace();
    if words.next()? != APP {
        return Some(vec!["?noapp".into()]);
    }
    let mut level = def;
    let mut path = Vec::new();
    for w in words {
        let tail = &level["tail"];
        if s(tail, "kind") != "cmd" {
            break;
        }
        let mut found = None;
        for c in tail["cmds"].as_array().unwrap() {
            if c["names"][0].as_str() == Some(w) {
                found = Some(c);
            }
        }
        match found {
            Some(c) => {
                path.push(w.to_string());
                level = &c["level"];
            }
            None => break,
        }
    }
    // an adjacent subcommand of the level reached: its help lists its own members; one without members is
    // recognised by its name closing the usage path of a text that does not list the level's commands
    if let Some(named) = level.get("named").and_then(J::as_array) {
        let heads: Vec<&J> = named.iter().filter(|f| s(f, "kind") == "adj" && s(&f["head"], "kind") == "cmd").collect();
        if !heads.is_empty() && !text.contains("Available commands:") {
            let mut last: Option<String> = None;
            for w in line["Usage: ".len()..].split_whitespace().skip(1 + path.len()) {
                match heads.iter().find(|f| f["head"]["names"][0].as_str() == Some(w)) {
                    Some(f) => last = Some(f["head"]["names"][0].as_str().unwrap().to_string()),
                    None => break,
                }
            }
            if let Some(l) = last {
                let memberless = heads.iter().any(|f| f["head"]["names"][0].as_str() == Some(l.as_str())
                    && f["members"].as_array().map_or(true, |m| m.is_empty()));
                if memberless {
                    path.push(l);
                    return Some(path);
                }
            }
        }
        for f in named {
            if s(f, "kind") == "adj" && s(&f["head"], "kind") == "cmd" {
                let lists_member = f["members"].as_array().map_or(false, |ms| {
                    ms.iter().any(|m| {
                        let h = s(m, "help");
                        !h.is_empty() && text.contains(h)
                    })
                });
                if lists_member {
                    path.push(f["head"]["names"][0].as_str().unwrap_or("").to_string());
                    break;
                }
            }
        }
    }
    Some(path)
}

/// candidate replacements in a revision-0 completion output (placeholders have an empty replacement)
pub fn completion_cands(text: &str) -> Vec<String> {
    if !text.contains('\t') {
        if text.ends_with('\n') {
            return vec![]; // nothing matched: the typed word is echoed
        }
        return vec![text.to_string()]; // exactly one candidate
    }
    let mut out = Vec::new();
    for l in text.lines() {
        if l.is_empty() {
            break;
        }
        let subst = l.split('\t').next().unwrap_or("");
        if !subst.is_empty() {
            out.push(subst.to_string());
        }
    }
    out
}

pub fn project(def: &J, o: &Obs) -> J {
    match o.class {
        "ok" => json!({"class":"ok","value":o.value}),
        "stdout" => {
            if o.text.starts_with("Version: ") {
                json!({"class":"stdout","kind":"version","vtext":o.text.trim_end()})
            } else {
                json!({"class":"stdout","kind":"help","path":help_path(def,&o.text),"text":o.text})
            }
        }
        "stderr" => json!({"class":"stderr","text":o.text}),
        "completion" => json!({"class":"completion","text":o.text,"cands":completion_cands(&o.text)}),
        _ => json!({"class":"panic","text":o.text}),
    }
}

/// does the observation conform to what the specification expects?  Only the attributes the
/// specification states are compared (class, value, kind of stdout output, help path, carried text)
pub fn conforms(expect: &J, got: &J) -> bool {
    if expect["class"] != got["class"] {
        return false;
    }
    match expect["class"].as_str().unwrap_or("") {
        "ok" => expect["value"] == got["value"],
        "stdout" => {
            if expect["kind"] != got["kind"] {
                return false;
            }
            if let Some(p) = expect.get("path") {
                if !p.is_null() && Some(p) != got.get("path") {
                    return false;
                }
            }
            // C18: what the help text tells about the variables of the level it describes
            if let Some(ls) = expect.get("envlines").and_then(J::as_array) {
                let text = got["text"].as_str().unwrap_or("");
                if !ls.iter().filter_map(J::as_str).all(|l| text.contains(l)) {
                    return false;
                }
            }
            if let Some(v) = expect.get("vtag").and_then(J::as_str) {
                if got["vtext"].as_str() != Some(&format!("Version: VER-{}", v)) {
                    return false;
                }
            }
            true
        }
        "stderr" => {
            if let Some(c) = expect.get("carries").and_then(J::as_str) {
                if !c.is_empty() && !got["text"].as_str().unwrap_or("").contains(c) {
                    return false;
                }
            }
            // C18: a failure for a missing item names the item or its variable (any of the given texts)
            if let Some(alts) = expect.get("carries_any").and_then(J::as_array) {
                let text = got["text"].as_str().unwrap_or("");
                if !alts.is_empty() && !alts.iter().filter_map(J::as_str).any(|a| text.contains(a)) {
                    return false;
                }
            }
            // C06: the message carries the conversion error / the guard's own message
            if let Some(w) = expect.get("carries_conv").and_then(J::as_str) {
                let bytes = dec(w);
                let msg = match std::str::from_utf8(&bytes) {
                    Ok(t) => match t.parse::<u32>() {
                        Err(e) => e.to_string(),
                        Ok(_) => String::new(),
                    },
                    Err(_) => String::new(),
                };
                if !got["text"].as_str().unwrap_or("").contains(&msg) {
                    return false;
                }
            }
            if let Some(id) = expect.get("carries_guard").and_then(J::as_str) {
                if !got["text"].as_str().unwrap_or("").contains(crate::build::guard_msg(id)) {
                    return false;
                }
            }
            // C09: what a message must not say (suggestions for items that are data)
            if let Some(fs) = expect.get("forbid").and_then(J::as_array) {
                let text = got["text"].as_str().unwrap_or("");
                if fs.iter().filter_map(J::as_str).any(|f| text.contains(f)) {
                    return false;
                }
            }
            !got["text"].as_str().unwrap_or("").is_empty()
        }
        "completion" => {
            let cands: Vec<&str> = got["cands"].as_array().map(|a| a.iter().filter_map(J::as_str).collect()).unwrap_or_default();
            let must = expect["must"].as_array().cloned().unwrap_or_default();
            let may = expect["may"].as_array().cloned().unwrap_or_default();
            // after `--`: the metavariable of the positional item that takes the typed word is shown as a hint
            let hint_ok = match expect.get("hint").and_then(J::as_str) {
                Some(h) if !h.is_empty() => got["text"].as_str().unwrap_or("").contains(&format!("\t{}\t", String::from_utf8_lossy(&crate::val::dec(h)))),
                _ => true,
            };
            hint_ok
                && must.iter().all(|m| cands.contains(&m.as_str().unwrap_or("?")))
                && cands.iter().all(|c| may.iter().any(|m| m.as_str() == Some(c)))
        }
        _ => true,
    }
}

pub struct EnvGuard {
    set: Vec<String>,
}
impl EnvGuard {
    /// set the declared variables; values are percent-encoded byte strings, null = unset
    pub fn apply(env: Option<&J>) -> EnvGuard {
        let mut set = Vec::new();
        if let Some(J::Object(m)) = env {
            for (k, v) in m {
                match v {
                    J::String(x) if x != "UNSET" => std::env::set_var(k, os(&dec(x))),
                    _ => std::env::remove_var(k),
                }
                set.push(k.clone());
            }
        }
        EnvGuard { set }
    }
}
impl Drop for EnvGuard {
    fn drop(&mut self) {
        for k in &self.set {
            std::env::remove_var(k);
        }
    }
}

pub fn argv_json(argv: &[OsString]) -> J {
    use std::os::unix::ffi::OsStrExt;
    J::Array(argv.iter().map(|a| J::String(enc(a.as_bytes()))).collect())
}
