pub mod build;
pub mod obs;
pub mod val;
