//! A real executable around `OptionParser::run()`: the definition comes from the environment,
//! the arguments from the OS.  Prints `BODY <value>` when (and only when) the program body is reached.
use bpaf_verif_harness::build::build_options;
use std::io::Write;

fn main() {
    let def = std::env::var("BPAF_VERIF_DEF").expect("BPAF_VERIF_DEF");
    let def: serde_json::Value = serde_json::from_str(&def).expect("definition json");
    let mut parser = build_options(&def);
    // C13: the width help is printed at comes from `max_width`
    if let Some(w) = std::env::var("BPAF_VERIF_WIDTH").ok().and_then(|w| w.parse::<usize>().ok()) {
        parser = parser.max_width(w);
    }
    let v = parser.run();
    let mut out = std::io::stdout();
    writeln!(out, "BODY {}", v.to_json()).unwrap();
    out.flush().unwrap();
}
