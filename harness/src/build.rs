//! Dynamic builder: JSON definition -> real bpaf parser made only of public combinators.
//! Nothing here re-implements bpaf logic; it only chooses which combinators to call.
use crate::val::{dec, Val};
use bpaf::parsers::NamedArg;
use bpaf::*;
use serde_json::{json, Value as J};
use std::ffi::OsString;
use std::os::unix::ffi::{OsStrExt, OsStringExt};

pub type P = Box<dyn Parser<Val>>;

pub fn leak(s: &str) -> &'static str {
    Box::leak(s.to_string().into_boxed_str())
}

fn s<'a>(j: &'a J, k: &str) -> &'a str {
    j.get(k).and_then(J::as_str).unwrap_or("")
}
fn b(j: &J, k: &str) -> bool {
    j.get(k).and_then(J::as_bool).unwrap_or(false)
}
fn arr<'a>(j: &'a J, k: &str) -> &'a [J] {
    j.get(k).and_then(J::as_array).map(|v| v.as_slice()).unwrap_or(&[])
}

/// decode a concrete spelling kept percent-encoded in the definition ("-%C3%B1" -> "-ñ")
fn dstr(x: &str) -> String {
    String::from_utf8(dec(x)).expect("names in definitions must be UTF-8")
}

pub fn named_arg(it: &J) -> NamedArg {
    let shorts: Vec<char> = arr(it, "shorts")
        .iter()
        .map(|x| dstr(x.as_str().unwrap()).chars().nth(1).expect("short name"))
        .collect();
    let longs: Vec<&'static str> = arr(it, "longs")
        .iter()
        .map(|x| leak(&dstr(x.as_str().unwrap())[2..]))
        .collect();
    let mut n: Option<NamedArg> = None;
    for c in &shorts {
        n = Some(match n {
            None => short(*c),
            Some(n) => n.short(*c),
        });
    }
    for l in &longs {
        n = Some(match n {
            None => long(l),
            Some(n) => n.long(l),
        });
    }
    let envs: Vec<&str> = match it.get("env") {
        Some(J::String(e)) if !e.is_empty() => vec![e.as_str()],
        Some(J::Array(v)) => v.iter().filter_map(J::as_str).collect(),
        _ => vec![],
    };
    // a second variable consulted when the first one is not set
    let e2 = s(it, "env2");
    let envs: Vec<&str> = if e2.is_empty() { envs } else { envs.into_iter().chain(std::iter::once(e2)).collect() };
    for e in envs {
        n = Some(match n {
            None => env(leak(e)),
            Some(n) => n.env(leak(e)),
        });
    }
    let mut n = n.expect("named item without any name");
    let h = s(it, "help");
    if !h.is_empty() {
        n = n.help(help_doc(it));
    }
    n
}

/// the help text of an item as a `Doc`: one text fragment, or several when the definition asks
/// for cuts (`help_cuts`: character offsets) - fragments of alternating styles, the concatenation
/// is the same text
pub fn help_doc(it: &J) -> bpaf::Doc {
    let mut text = dstr(s(it, "help"));
    let more = s(it, "help_more");
    if !more.is_empty() {
        text.push_str("\n\n");
        text.push_str(&dstr(more));
    }
    let cuts: Vec<usize> = it
        .get("help_cuts")
        .and_then(J::as_array)
        .map(|a| a.iter().filter_map(J::as_u64).map(|x| x as usize).collect())
        .unwrap_or_default();
    doc_from(&text, cuts, b(it, "help_all_nested"))
}

/// the header of a group (`group_help`): a string, or - with `gh_cuts` - a Doc of several styled fragments
pub fn group_doc(it: &J, key: &str) -> bpaf::Doc {
    let cuts: Vec<usize> = it
        .get("gh_cuts")
        .and_then(J::as_array)
        .map(|a| a.iter().filter_map(J::as_u64).map(|x| x as usize).collect())
        .unwrap_or_default();
    doc_from(&dstr(s(it, key)), cuts, false)
}

fn doc_from(text: &str, cuts: Vec<usize>, all_nested: bool) -> bpaf::Doc {
    let mut doc = bpaf::Doc::default();
    if cuts.is_empty() {
        doc.text(text);
        return doc;
    }
    let chars: Vec<char> = text.chars().collect();
    let mut from = 0;
    let mut k = 0;
    for c in cuts.into_iter().chain(std::iter::once(chars.len())) {
        let c = c.min(chars.len());
        if c > from {
            // neighbouring fragments of one style are merged by bpaf: alternate the styles
            let frag = chars[from..c].iter().collect::<String>();
            match if all_nested { 3 } else { k % 4 } {
                0 => doc.text(&frag),
                1 => doc.literal(&frag),
                2 => doc.emphasis(&frag),
                _ => {
                    // a fragment that is a Doc of its own, embedded with `Doc::doc`
                    let mut inner = bpaf::Doc::default();
                    inner.text(&frag);
                    doc.doc(&inner);
                }
            }
            k += 1;
            from = c;
        }
    }
    doc
}

pub const GUARD_BAD: &str = "2";
pub const FALLBACK_INT: i64 = 7;
pub const FALLBACK_STR: &str = "dflt";

pub fn guard_msg(id: &str) -> &'static str {
    leak(&format!("GUARDMSG-{}", id))
}

/// the validation every guarded node applies: no (member) value is the refused one
fn guard_ok(v: &Val) -> bool {
    match v {
        Val::Int(i) => *i != 2,
        Val::Bytes(b) => b.as_slice() != GUARD_BAD.as_bytes(),
        Val::Tuple(vs) | Val::List(vs) => vs.iter().all(guard_ok),
        Val::Variant(_, x) | Val::Just(x) => guard_ok(x),
        _ => true,
    }
}

fn metavar(it: &J) -> &'static str {
    let m = s(it, "metavar");
    if m.is_empty() {
        leak(&format!("MV{}", s(it, "id").to_uppercase()))
    } else {
        leak(&dstr(m))
    }
}

fn os_val(o: OsString) -> Val {
    Val::Bytes(o.into_vec())
}

fn fallback_val(it: &J) -> Val {
    if s(it, "kind") == "alt" {
        // a defaulted group / choice: the default is the first branch made of its members' default values
        let f = arr(&it["branches"][0], "fields");
        let v = if f.len() == 1 { group_default(&f[0]) } else { Val::Tuple(f.iter().map(group_default).collect()) };
        return Val::Variant(0, Box::new(v));
    }
    match s(it, "vt") {
        "int" => Val::Int(FALLBACK_INT),
        "none" | "" if s(it, "kind") == "reqflag" => Val::Unit,
        _ => Val::Bytes(FALLBACK_STR.as_bytes().to_vec()),
    }
}

/// the value a generated group's `dflt()` gives to one of its fields (mirrors py/gen_derive.py)
fn group_default(f: &J) -> Val {
    match (s(f, "kind"), s(f, "arity")) {
        ("switch", _) => Val::Bool(false),
        ("reqflag", "count") => Val::Count(0),
        ("reqflag", _) => Val::Unit,
        (_, "opt") => Val::Nothing,
        (_, "many") | (_, "some") => Val::List(vec![]),
        _ => match s(f, "vt") {
            "int" => Val::Int(7),
            _ => Val::Bytes(b"d".to_vec()),
        },
    }
}

/// apply guard / arity / catch / hide wrappers shared by all node kinds
fn wrap(mut p: P, it: &J) -> P {
    let id = s(it, "id");
    // (`guard_at_group`: the validation of this member is attached to the group it belongs to, after the group is built)
    if b(it, "guard") && !b(it, "guard_at_group") {
        p = p.guard(guard_ok, guard_msg(id)).boxed();
    }
    // (`hide_inner`: the item itself is hidden, the repetition / default is put around the hidden item)
    if b(it, "hide_inner") {
        p = p.hide().boxed();
    }
    let catch = b(it, "catch");
    p = match s(it, "arity") {
        "" | "one" | "sw" => p,
        "opt" => {
            let o = p.optional();
            let o = if catch { o.catch() } else { o };
            o.map(|v| match v {
                Some(v) => Val::Just(Box::new(v)),
                None => Val::Nothing,
            })
            .boxed()
        }
        // `collect::<Vec<_>>()` is the same repetition through another entry point
        "many" if b(it, "via_collect") => {
            let o = p.collect::<Vec<Val>>();
            let o = if catch { o.catch() } else { o };
            o.map(Val::List).boxed()
        }
        "many" => {
            let o = p.many();
            let o = if catch { o.catch() } else { o };
            o.map(Val::List).boxed()
        }
        "some" => {
            let o = p.some(leak(&format!("SOMEMSG-{}", id)));
            let o = if catch { o.catch() } else { o };
            o.map(Val::List).boxed()
        }
        "collect" => {
            let o = p.collect::<Vec<Val>>();
            let o = if catch { o.catch() } else { o };
            o.map(Val::List).boxed()
        }
        "count" => p.count().map(Val::Count).boxed(),
        "last" => p.last().boxed(),
        // the default may be shown in help: through Display (`DFLT`), Debug, or a formatter of the program's own
        "fallback" => {
            let f = p.fallback(fallback_val(it));
            let tag: &'static str = leak(&format!("FMT-{}", id));
            match s(it, "show_default") {
                "display" => f.display_fallback().boxed(),
                "debug" => f.debug_fallback().boxed(),
                "format" => f.format_fallback(move |_v, w| write!(w, "{}", tag)).boxed(),
                _ => f.boxed(),
            }
        }
        "fallback_with" => {
            let v = fallback_val(it);
            let f = p.fallback_with(move || Ok::<Val, String>(v.clone()));
            let tag: &'static str = leak(&format!("FMT-{}", id));
            match s(it, "show_default") {
                "display" => f.display_fallback().boxed(),
                "debug" => f.debug_fallback().boxed(),
                "format" => f.format_fallback(move |_v, w| write!(w, "{}", tag)).boxed(),
                _ => f.boxed(),
            }
        }
        "fallback_with_err" => p
            .fallback_with(move || Err::<Val, String>("FBERR".to_string()))
            .boxed(),
        // guard applied outside of the repetition
        "many_guard" => p
            .many()
            .map(Val::List)
            .guard(
                |v| match v {
                    Val::List(l) => l.len() != 2,
                    _ => true,
                },
                guard_msg(id),
            )
            .boxed(),
        // a group with a header, a default value and the default shown in help (derive: doc comment +
        // `fallback(..)` + `display_fallback` on a nested type): the header is attached first
        "fallback_group" => {
            let gh = s(it, "group_help");
            let p = if gh.is_empty() { p } else { p.group_help(leak(&dstr(gh))).boxed() };
            let dv = Val::Tuple(arr(it, "fields").iter().map(group_default).collect());
            p.fallback(dv).display_fallback().boxed()
        }
        "fallback_many" => p
            .many()
            .map(Val::List)
            .fallback(Val::List(vec![]))
            .boxed(),
        other => panic!("unknown arity {}", other),
    };
    // a validation applied after the default was filled in, refusing the default value itself
    if b(it, "gdflt") {
        let dv = fallback_val(it);
        p = p.guard(move |v| *v != dv, guard_msg(id)).boxed();
    }
    let gh = s(it, "group_help");
    if !gh.is_empty() && s(it, "arity") != "fallback_group" {
        if b(it, "via_with_group_help") {
            // the same header through the closure-taking entry point
            let text: &'static str = leak(&dstr(gh));
            p = p
                .with_group_help(move |_meta| {
                    let mut d = bpaf::Doc::default();
                    d.text(text);
                    d
                })
                .boxed();
        } else if it.get("gh_cuts").is_some() {
            p = p.group_help(group_doc(it, "group_help")).boxed();
        } else {
            p = p.group_help(leak(&dstr(gh))).boxed();
        }
    }
    if b(it, "hide_usage") {
        p = p.hide_usage().boxed();
    }
    let cu = s(it, "custom_usage");
    if !cu.is_empty() {
        p = p.custom_usage(leak(&dstr(cu))).boxed();
    }
    if b(it, "hidden") {
        p = p.hide().boxed();
    }
    p
}

#[cfg(feature = "autocomplete")]
fn with_completer(p: P, it: &J) -> P {
    let cands: Vec<(String, Option<String>)> = arr(it, "completer")
        .iter()
        .map(|c| match c {
            J::String(v) => (dstr(v), None),
            J::Array(a) => (
                dstr(a[0].as_str().unwrap()),
                a.get(1).and_then(J::as_str).map(dstr),
            ),
            _ => panic!("bad completer"),
        })
        .collect();
    let mut p = p;
    if !cands.is_empty() {
        let grp = s(it, "cgroup");
        let c = p
            .complete(move |v: &Val| {
                let pre = match v {
                    Val::Bytes(b) => String::from_utf8_lossy(b).to_string(),
                    Val::Int(i) => i.to_string(),
                    _ => String::new(),
                };
                cands
                    .iter()
                    .filter(|(c, _)| c.starts_with(&pre))
                    .cloned()
                    .collect::<Vec<_>>()
            });
        p = if grp.is_empty() { c.boxed() } else { c.group(dstr(grp)).boxed() };
    }
    match s(it, "complete_shell") {
        "" => p,
        "file" => p.complete_shell(ShellComp::File { mask: None }).boxed(),
        "file_mask" => p
            .complete_shell(ShellComp::File {
                mask: Some(leak(&dstr(s(it, "mask")))),
            })
            .boxed(),
        "dir" => p.complete_shell(ShellComp::Dir { mask: None }).boxed(),
        "dir_mask" => p
            .complete_shell(ShellComp::Dir {
                mask: Some(leak(&dstr(s(it, "mask")))),
            })
            .boxed(),
        "raw" => {
            let r = leak(&dstr(s(it, "mask")));
            p.complete_shell(ShellComp::Raw {
                bash: r,
                zsh: r,
                fish: r,
                elvish: r,
            })
            .boxed()
        }
        "nothing" => p.complete_shell(ShellComp::Nothing).boxed(),
        o => panic!("unknown complete_shell {}", o),
    }
}
#[cfg(not(feature = "autocomplete"))]
fn with_completer(p: P, _it: &J) -> P {
    p
}

macro_rules! con_arm {
    ($adj:expr, $v:expr; $($f:ident),+) => {{
        let mut it = $v.into_iter();
        $(let $f: P = it.next().unwrap();)+
        let c = construct!($($f),+);
        if $adj {
            c.adjacent().map(|($($f),+)| Val::Tuple(vec![$($f),+])).boxed()
        } else {
            c.map(|($($f),+)| Val::Tuple(vec![$($f),+])).boxed()
        }
    }};
}

/// sequential composition with the real `construct!` macro (one arm per arity)
pub fn con(fields: Vec<P>, adjacent: bool) -> P {
    match fields.len() {
        0 => pure(Val::Tuple(vec![])).boxed(),
        1 => {
            let mut it = fields.into_iter();
            let a = it.next().unwrap();
            let c = construct!(a);
            c.map(|a| Val::Tuple(vec![a])).boxed()
        }
        2 => con_arm!(adjacent, fields; f1, f2),
        3 => con_arm!(adjacent, fields; f1, f2, f3),
        4 => con_arm!(adjacent, fields; f1, f2, f3, f4),
        5 => con_arm!(adjacent, fields; f1, f2, f3, f4, f5),
        6 => con_arm!(adjacent, fields; f1, f2, f3, f4, f5, f6),
        7 => con_arm!(adjacent, fields; f1, f2, f3, f4, f5, f6, f7),
        8 => con_arm!(adjacent, fields; f1, f2, f3, f4, f5, f6, f7, f8),
        9 => con_arm!(adjacent, fields; f1, f2, f3, f4, f5, f6, f7, f8, f9),
        10 => con_arm!(adjacent, fields; f1, f2, f3, f4, f5, f6, f7, f8, f9, f10),
        11 => con_arm!(adjacent, fields; f1, f2, f3, f4, f5, f6, f7, f8, f9, f10, f11),
        12 => con_arm!(adjacent, fields; f1, f2, f3, f4, f5, f6, f7, f8, f9, f10, f11, f12),
        n => panic!("construct! arity {} not supported by the harness", n),
    }
}

/// choice with the real `construct!([..])` (= or_else chain), each branch tagged with its index
pub fn alt(branches: Vec<P>) -> P {
    let mut it = branches.into_iter().enumerate().map(|(k, p)| {
        let p: P = p.map(move |v| Val::Variant(k, Box::new(v))).boxed();
        p
    });
    let mut acc = it.next().expect("alt without branches");
    for nxt in it {
        let a = acc;
        let b = nxt;
        acc = construct!([a, b]).boxed();
    }
    acc
}

pub fn build_node(it: &J) -> P {
    let kind = s(it, "kind");
    let base: P = match kind {
        "switch" => {
            let mut p: P = named_arg(it).switch().map(Val::Bool).boxed();
            // a validation on a switch: it may not be switched on (from the line or from its variable)
            if b(it, "gflag") {
                p = p.guard(|v| !matches!(v, Val::Bool(true)), guard_msg(s(it, "id"))).boxed();
            }
            return wrap_hidden_only(p, it);
        }
        "flag" => {
            // flag with custom present/absent values
            named_arg(it)
                .flag(Val::Bytes(b"on".to_vec()), Val::Bytes(b"off".to_vec()))
                .boxed()
        }
        "reqflag" => named_arg(it).req_flag(Val::Unit).boxed(),
        "arg" => {
            let mv = metavar(it);
            let n = named_arg(it);
            let adj = b(it, "adj");
            let p: P = match s(it, "vt") {
                "int" => {
                    let a = n.argument::<u32>(mv);
                    let a = if adj { a.adjacent() } else { a };
                    a.map(|v| Val::Int(v as i64)).boxed()
                }
                "os" => {
                    let a = n.argument::<OsString>(mv);
                    let a = if adj { a.adjacent() } else { a };
                    a.map(os_val).boxed()
                }
                "path" => {
                    let a = n.argument::<std::path::PathBuf>(mv);
                    let a = if adj { a.adjacent() } else { a };
                    a.map(|p| os_val(p.into_os_string())).boxed()
                }
                "parse" => {
                    // String consumed, then a user supplied fallible `parse` step
                    let a = n.argument::<String>(mv);
                    let a = if adj { a.adjacent() } else { a };
                    a.parse(|v| v.parse::<u32>().map(|v| Val::Int(v as i64)))
                        .boxed()
                }
                _ => {
                    let a = n.argument::<String>(mv);
                    let a = if adj { a.adjacent() } else { a };
                    a.map(|v| Val::Bytes(v.into_bytes())).boxed()
                }
            };
            with_completer(p, it)
        }
        // a fixed word (`literal`): the next unclaimed word must be exactly this one
        "pos" | "lit" if !s(it, "lit").is_empty() => {
            let l = bpaf::literal(leak(&dstr(s(it, "lit"))));
            let l = if s(it, "help").is_empty() || kind != "lit" { l } else { l.help(help_doc(it)) };
            // (the tag of an adjacent group: looked for anywhere on the line)
            if b(it, "anywhere") || kind == "lit" {
                l.anywhere().map(|_| Val::Unit).boxed()
            } else {
                l.map(|_| Val::Unit).boxed()
            }
        }
        "pos" => {
            let mv = metavar(it);
            let h = s(it, "help");
            macro_rules! posn {
                ($t:ty, $f:expr) => {{
                    let mut p = positional::<$t>(mv);
                    if !h.is_empty() {
                        p = p.help(help_doc(it));
                    }
                    let p = match s(it, "strict") {
                        "strict" => p.strict(),
                        "non_strict" => p.non_strict(),
                        _ => p,
                    };
                    let p: P = p.map($f).boxed();
                    p
                }};
            }
            let p: P = match s(it, "vt") {
                "int" => posn!(u32, |v| Val::Int(v as i64)),
                "os" => posn!(OsString, os_val),
                _ => posn!(String, |v: String| Val::Bytes(v.into_bytes())),
            };
            with_completer(p, it)
        }
        "cmd" => {
            let level = it.get("level").expect("cmd without level");
            let names = arr(it, "names");
            let op = build_options(level);
            let mut c = op.command(leak(&dstr(names[0].as_str().unwrap())));
            for a in &names[1..] {
                c = c.long(leak(&dstr(a.as_str().unwrap())));
            }
            for a in arr(it, "shorts") {
                c = c.short(dstr(a.as_str().unwrap()).chars().next().unwrap());
            }
            let h = s(it, "help");
            if !h.is_empty() {
                c = c.help(leak(&dstr(h)));
            }
            if b(it, "adjacent") {
                c = c.adjacent();
            }
            c.boxed()
        }
        "alt" if b(it, "via_choice") => {
            // the same choice through the `choice` function instead of `construct!([..])`
            let branches: Vec<P> = arr(it, "branches")
                .iter()
                .enumerate()
                .map(|(k, br)| build_node(br).map(move |v| Val::Variant(k, Box::new(v))).boxed())
                .collect();
            bpaf::choice(branches).boxed()
        }
        "alt" if b(it, "via_right_nested") => {
            // the same choice nested to the right: construct!([a, construct!([b, construct!([c, ..])])])
            let mut branches: Vec<P> = arr(it, "branches")
                .iter()
                .enumerate()
                .map(|(k, br)| build_node(br).map(move |v| Val::Variant(k, Box::new(v))).boxed())
                .collect();
            let mut acc = branches.pop().expect("alt without branches");
            while let Some(a) = branches.pop() {
                let b2 = acc;
                acc = construct!([a, b2]).boxed();
            }
            acc
        }
        "alt" => alt(arr(it, "branches").iter().map(build_node).collect()),
        "branch" => {
            let f = arr(it, "fields");
            if f.len() == 1 {
                build_node(&f[0])
            } else {
                con(f.iter().map(build_node).collect(), false)
            }
        }
        "adj" if it.get("head").map_or(false, |h| h["kind"] == "cmd") => {
            // adjacent subcommand: named members and then positional members form its own parser
            let members = arr(it, "members");
            let nested = s(it, "nested_cmd");
            let mut fields: Vec<P> = if nested.is_empty() {
                let mut f: Vec<P> = members.iter().filter(|m| m["kind"] != "pos").map(build_node).collect();
                f.extend(members.iter().filter(|m| m["kind"] == "pos").map(build_node));
                f
            } else {
                // the first member stands for the name of a REGULAR subcommand nested in this adjacent one, the other
                // members are that subcommand's own items: `remote add NAME` (the value is flattened to the same tuple)
                let inner: Vec<P> = members[1..].iter().map(build_node).collect();
                let sub = con(inner, false).to_options().command(leak(&dstr(nested)));
                vec![sub
                    .map(|v| match v {
                        Val::Tuple(mut xs) => {
                            xs.insert(0, Val::Unit);
                            Val::Tuple(xs)
                        }
                        other => other,
                    })
                    .boxed()]
            };
            let names = arr(&it["head"], "names");
            let inner_p: P = if nested.is_empty() {
                con(fields, false)
            } else {
                // (one field: its flattened tuple is the block's value)
                let f = fields.pop().unwrap();
                construct!(f).boxed()
            };
            let op = inner_p.to_options();
            let op = if b(&it["head"], "ftu") { op.fallback_to_usage() } else { op };
            let mut c = op.command(leak(&dstr(names[0].as_str().unwrap())));
            for a in &names[1..] {
                c = c.long(leak(&dstr(a.as_str().unwrap())));
            }
            c.adjacent().boxed()
        }
        "adj" if it.get("head").is_some() => {
            // (`head_at`: that many members are declared in front of the tag)
            let mut fields: Vec<P> = arr(it, "members").iter().map(build_node).collect();
            let at = it.get("head_at").and_then(J::as_u64).unwrap_or(0) as usize;
            fields.insert(at.min(fields.len()), build_node(&it["head"]));
            con(fields, true)
        }
        "seq" | "adj" => con(
            arr(it, "fields").iter().map(build_node).collect(),
            kind == "adj" || b(it, "adjacent"),
        ),
        "any" => {
            // escape hatch: consumes items that start with `@` (or with the given prefix, e.g. `-D` for `-Dname=value`)
            let prefix: &'static str = if s(it, "prefix").is_empty() { "@" } else { leak(s(it, "prefix")) };
            let all = b(it, "any_all");      // a catch-all: every item passes the check
            let a = any::<OsString, _, _>(metavar(it), move |x: OsString| {
                if all || x.to_string_lossy().starts_with(prefix) {
                    Some(x)
                } else {
                    None
                }
            });
            let a = if b(it, "anywhere") { a.anywhere() } else { a };
            let h = s(it, "help");
            let a = if h.is_empty() { a } else { a.help(leak(&dstr(h))) };
            a.map(os_val).boxed()
        }
        "pure" if b(it, "via_pure_with") => pure_with(|| Ok::<Val, String>(Val::Unit)).boxed(),
        "pure" => pure(Val::Unit).boxed(),
        "fail" => fail::<Val>(leak("FAILMSG")).boxed(),
        other => panic!("unknown node kind {:?}", other),
    };
    wrap(base, it)
}

fn wrap_hidden_only(mut p: P, it: &J) -> P {
    let gh = s(it, "group_help");
    if !gh.is_empty() {
        p = if it.get("gh_cuts").is_some() {
            p.group_help(group_doc(it, "group_help")).boxed()
        } else {
            p.group_help(leak(&dstr(gh))).boxed()
        };
    }
    if b(it, "hide_usage") {
        p = p.hide_usage().boxed();
    }
    let cu = s(it, "custom_usage");
    if !cu.is_empty() {
        p = p.custom_usage(leak(&dstr(cu))).boxed();
    }
    if b(it, "hidden") {
        p = p.hide().boxed();
    }
    p
}

/// `batteries::verbose_and_quiet_by_number` / `verbose_by_slice` (the table holds its own indices); without the
/// `batteries` feature the same parser is composed by hand, the way the crate's source does it
fn battery_vq(b: &J) -> P {
    let offset = b["offset"].as_i64().unwrap() as isize;
    let (min, max) = (b["min"].as_i64().unwrap() as isize, b["max"].as_i64().unwrap() as isize);
    #[cfg(feature = "batteries")]
    {
        if s(b, "k") == "slice" {
            assert!(min == 0 && max == 3, "the harness knows tables of four entries");
            return bpaf::batteries::verbose_by_slice(offset as usize, [0i64, 1, 2, 3]).map(Val::Int).boxed();
        }
        bpaf::batteries::verbose_and_quiet_by_number(offset, min, max).map(|v| Val::Int(v as i64)).boxed()
    }
    #[cfg(not(feature = "batteries"))]
    {
        let verbose = short('v')
            .long("verbose")
            .help("Increase output verbosity, can be used several times")
            .req_flag(())
            .many()
            .map(|v| v.len() as isize);
        let quiet = short('q')
            .long("quiet")
            .help("Decrease output verbosity, can be used several times")
            .req_flag(())
            .many()
            .map(|v| v.len() as isize);
        construct!(verbose, quiet).map(move |(v, q)| Val::Int((v - q + offset).clamp(min, max) as i64)).boxed()
    }
}

/// `batteries::toggle_flag`: two required flags, the last one given decides
fn battery_toggle(it: &J) -> P {
    let br = arr(it, "branches");
    let (a, b2) = (named_arg(&br[0]["fields"][0]), named_arg(&br[1]["fields"][0]));
    #[cfg(feature = "batteries")]
    let p = bpaf::batteries::toggle_flag(a, 0usize, b2, 1usize);
    #[cfg(not(feature = "batteries"))]
    let p = {
        let a = a.req_flag(0usize);
        let b2 = b2.req_flag(1usize);
        construct!([a, b2]).many().map(|xs| xs.into_iter().last())
    };
    p.map(|v| match v {
        Some(k) => Val::Just(Box::new(Val::Variant(k, Box::new(Val::Unit)))),
        None => Val::Nothing,
    })
    .boxed()
}

/// `batteries::cargo_helper`
fn cargo_wrap(cmd: &'static str, p: P) -> P {
    #[cfg(feature = "batteries")]
    {
        bpaf::batteries::cargo_helper(cmd, p).boxed()
    }
    #[cfg(not(feature = "batteries"))]
    {
        let skip = bpaf::literal(cmd).optional().hide();
        construct!(skip, p).map(|x| x.1).boxed()
    }
}

pub fn level_fields(level: &J) -> Vec<P> {
    // adjacent subcommands marked `joined` are the alternatives of one repeated choice:
    // `construct!([build, test, clean]).many()`; the choice sits where its first command is declared
    let mut fields: Vec<P> = Vec::new();
    let mut done: Vec<String> = Vec::new();
    let mut skip_next = false;
    for f in arr(level, "named") {
        if skip_next {
            skip_next = false;          // the second flag of a battery
            continue;
        }
        if let Some(bt) = f.get("battery").filter(|b| matches!(s(b, "k"), "vq" | "slice")) {
            fields.push(battery_vq(bt));
            skip_next = true;
            continue;
        }
        if f.get("battery").map_or(false, |b| s(b, "k") == "toggle") {
            fields.push(battery_toggle(f));
            continue;
        }
        let j = s(f, "joined");
        if j.is_empty() {
            fields.push(build_node(f));
        } else if !done.iter().any(|x| x == j) {
            done.push(j.to_string());
            let cmds: Vec<P> = arr(level, "named")
                .iter()
                .filter(|g| s(g, "joined") == j)
                .map(|g| {
                    let mut g = g.clone();
                    g["arity"] = J::String("one".into());
                    build_node(&g)
                })
                .collect();
            // (collected with `many()` or with `some(..)`, as the first of them says)
            let a = alt(cmds);
            fields.push(if s(f, "arity") == "some" {
                a.some(leak(&format!("SOMEMSG-{}", s(f, "id")))).map(Val::List).boxed()
            } else {
                a.many().map(Val::List).boxed()
            });
        }
    }
    if let Some(tail) = level.get("tail") {
        match s(tail, "kind") {
            "pos" => {
                // (`pos_first`: the positional items are declared in front of the level's adjacent groups)
                let at = if b(level, "pos_first") { 0 } else { fields.len() };
                for (k, p) in arr(tail, "items").iter().enumerate() {
                    let mut p = p.clone();
                    p["kind"] = J::String("pos".into());
                    fields.insert(at + k, build_node(&p));
                }
            }
            "cmd" => {
                let cmds: Vec<P> = arr(tail, "cmds")
                    .iter()
                    .map(|c| {
                        let mut c = c.clone();
                        c["kind"] = J::String("cmd".into());
                        build_node(&c)
                    })
                    .collect();
                let mut cmds = cmds;
                for p in arr(tail, "else_pos") {
                    let mut p = p.clone();
                    p["kind"] = J::String("pos".into());
                    cmds.push(build_node(&p));
                }
                let mut c = alt(cmds);
                if b(tail, "optional") {
                    c = c
                        .optional()
                        .map(|v| match v {
                            Some(v) => Val::Just(Box::new(v)),
                            None => Val::Nothing,
                        })
                        .boxed();
                }
                // optionally the command choice and the option declared before it form one group
                // with its own header (documentation shapes only: the value is nested one level)
                // positional items declared in front of the commands
                for p in arr(tail, "pre_pos") {
                    let mut p = p.clone();
                    p["kind"] = J::String("pos".into());
                    fields.push(build_node(&p));
                }
                let gh = s(tail, "grouped");
                if !gh.is_empty() && !fields.is_empty() {
                    let last = fields.pop().unwrap();
                    let g = con(vec![last, c], false).group_help(leak(&dstr(gh))).boxed();
                    fields.push(g);
                } else {
                    fields.push(c);
                }
            }
            _ => {}
        }
    }
    fields
}

pub fn build_options(level: &J) -> OptionParser<Val> {
    let inner = con(level_fields(level), false);
    let cargo = s(level, "cargo");
    let mut op = if cargo.is_empty() { inner.to_options() } else { cargo_wrap(leak(&dstr(cargo)), inner).to_options() };
    if b(level, "version") {
        let vt = s(level, "version_text");
        op = if vt.is_empty() {
            op.version(leak(&format!("VER-{}", s(level, "vtag"))))
        } else {
            op.version(leak(vt))
        };
    }
    for (k, f) in [("descr", 0), ("header", 1), ("footer", 2), ("usage", 3)] {
        let v = s(level, k);
        if !v.is_empty() {
            // a description handed over as a Doc of several styled fragments (`descr_cuts`)
            if f == 0 && level.get("descr_cuts").is_some() {
                let probe = json!({"help": v, "help_cuts": level["descr_cuts"].clone()});
                op = op.descr(help_doc(&probe));
                continue;
            }
            let v = leak(&dstr(v));
            op = match f {
                0 => op.descr(v),
                1 => op.header(v),
                2 => op.footer(v),
                _ if b(level, "via_with_usage") => op.with_usage(move |_| {
                    let mut d = bpaf::Doc::default();
                    d.text(v);
                    d
                }),
                _ => op.usage(v),
            };
        }
    }
    if let Some(h) = level.get("help_flag") {
        op = op.help_parser(named_arg(h));
    }
    if let Some(h) = level.get("version_flag") {
        op = op.version_parser(named_arg(h));
    }
    if b(level, "fallback_to_usage") || b(level, "ftu") {
        op = op.fallback_to_usage();
    }
    if let Some(w) = level.get("max_width").and_then(J::as_u64) {
        op = op.max_width(w as usize);
    }
    op
}

pub fn os(bytes: &[u8]) -> OsString {
    std::ffi::OsStr::from_bytes(bytes).to_os_string()
}
