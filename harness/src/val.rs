//! Dynamic value produced by the generated parsers, with a canonical JSON form shared with the
//! TLA+ specification (`ToJson` of the value the specification computes).
use serde_json::{json, Value as J};

#[derive(Clone, Debug, PartialEq)]
pub enum Val {
    Unit,
    Bool(bool),
    Count(usize),
    Bytes(Vec<u8>),
    Int(i64),
    Nothing,
    Just(Box<Val>),
    List(Vec<Val>),
    Tuple(Vec<Val>),
    Variant(usize, Box<Val>),
}

/// percent-encode bytes so that every byte string has exactly one printable ASCII spelling.
/// The specification only ever handles these spellings (TLC strings are opaque there).
pub fn enc(b: &[u8]) -> String {
    let mut s = String::new();
    for &c in b {
        if (0x21..=0x7e).contains(&c) && c != b'%' && c != b'"' && c != b'\\' {
            s.push(c as char);
        } else {
            s.push_str(&format!("%{:02X}", c));
        }
    }
    s
}

pub fn dec(s: &str) -> Vec<u8> {
    let b = s.as_bytes();
    let mut out = Vec::new();
    let mut i = 0;
    while i < b.len() {
        if b[i] == b'%' && i + 2 < b.len() && s.is_char_boundary(i + 1) && s.is_char_boundary(i + 3) {
            if let Ok(v) = u8::from_str_radix(&s[i + 1..i + 3], 16) {
                out.push(v);
                i += 3;
                continue;
            }
        }
        out.push(b[i]);
        i += 1;
    }
    out
}

impl Val {
    pub fn to_json(&self) -> J {
        match self {
            Val::Unit => json!("U"),
            Val::Bool(b) => json!(b),
            Val::Count(n) => json!({ "count": n }),
            Val::Bytes(b) => json!(enc(b)),
            Val::Int(i) => json!(i),
            Val::Nothing => json!("NONE"),
            Val::Just(v) => json!({ "some": v.to_json() }),
            Val::List(vs) => J::Array(vs.iter().map(Val::to_json).collect()),
            Val::Tuple(vs) => json!({ "t": J::Array(vs.iter().map(Val::to_json).collect()) }),
            Val::Variant(k, v) => json!({ "v": k, "x": v.to_json() }),
        }
    }
}

#[cfg(test)]
mod t {
    use super::*;
    #[test]
    fn roundtrip() {
        for b in [&b"abc"[..], b"a b", b"\xff=", b"%41", b""] {
            assert_eq!(dec(&enc(b)), b);
        }
    }
}

/// `display_fallback` needs a `Display`: every default value of a generated group shows as `DFLT`
impl std::fmt::Display for Val {
    fn fmt(&self, f: &mut std::fmt::Formatter<'_>) -> std::fmt::Result {
        write!(f, "DFLT")
    }
}
