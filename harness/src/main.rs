use bpaf_verif_harness::obs::*;
use bpaf_verif_harness::val::enc;
use serde_json::{json, Value as J};
use std::collections::HashMap;
use std::io::{BufRead, BufReader, BufWriter, Write};

fn arg_val(args: &[String], k: &str) -> Option<String> {
    args.iter().position(|a| a == k).and_then(|i| args.get(i + 1).cloned())
}

pub fn load_defs(path: &str) -> HashMap<String, J> {
    let f = std::fs::File::open(path).unwrap_or_else(|e| panic!("open {}: {}", path, e));
    let mut m = HashMap::new();
    for l in BufReader::new(f).lines() {
        let l = l.unwrap();
        if l.trim().is_empty() {
            continue;
        }
        let d: J = serde_json::from_str(&l).expect("def json");
        m.insert(d["id"].as_str().expect("def id").to_string(), d);
    }
    m
}

pub struct Cache {
    defs: HashMap<String, J>,
    built: HashMap<String, Result<Built, String>>,
}
impl Cache {
    pub fn new(defs: HashMap<String, J>) -> Self {
        Cache {
            defs,
            built: HashMap::new(),
        }
    }
    pub fn get(&mut self, case: &J) -> (&Result<Built, String>, String) {
        let (key, def) = match &case["def"] {
            J::String(id) => (
                id.clone(),
                self.defs
                    .get(id)
                    .unwrap_or_else(|| panic!("unknown def {}", id))
                    .clone(),
            ),
            d @ J::Object(_) => (d.to_string(), d.clone()),
            _ => panic!("case without def"),
        };
        if !self.built.contains_key(&key) {
            self.built.insert(key.clone(), build(&def));
        }
        (self.built.get(&key).unwrap(), key)
    }
}

/// replay specification-generated (or driver-generated) cases into the real parser
fn cmd_replay(args: &[String]) -> i32 {
    let defs = arg_val(args, "--defs").map(|p| load_defs(&p)).unwrap_or_default();
    let cases = arg_val(args, "--cases").expect("--cases");
    let out = arg_val(args, "--out").expect("--out");
    let dump = arg_val(args, "--dump-obs");
    let mut cache = Cache::new(defs);
    let mut mm = BufWriter::new(std::fs::File::create(&out).unwrap());
    let mut dumpw = dump.map(|p| BufWriter::new(std::fs::File::create(p).unwrap()));
    let rd: Box<dyn BufRead> = if cases == "-" {
        Box::new(BufReader::new(std::io::stdin()))
    } else {
        Box::new(BufReader::new(std::fs::File::open(&cases).unwrap()))
    };
    let (mut n, mut bad) = (0u64, 0u64);
    let mut classes: HashMap<String, u64> = HashMap::new();
    for l in rd.lines() {
        let l = l.unwrap();
        if l.trim().is_empty() {
            continue;
        }
        let case: J = serde_json::from_str(&l).expect("case json");
        let argv = if case.get("argv").is_some() {
            concretize(&case["argv"])
        } else {
            concretize(&case["line"])
        };
        let mut argv = argv;
        if let Some(p) = case.get("partial").and_then(J::as_str) {
            argv.push(bpaf_verif_harness::build::os(&bpaf_verif_harness::val::dec(p)));
        }
        let _env = EnvGuard::apply(case.get("env"));
        let (b, _) = cache.get(&case);
        let b = match b {
            Ok(b) => b,
            Err(e) => {
                writeln!(mm, "{}", json!({"case":case,"build_panic":e})).unwrap();
                bad += 1;
                continue;
            }
        };
        let comp = case.get("comp").and_then(J::as_u64).map(|c| c as usize);
        let o = run(
            b,
            &argv,
            &RunOpts {
                name: Some(APP),
                comp,
            },
        );
        let got = project(&b.def, &o);
        n += 1;
        *classes.entry(o.class.to_string()).or_default() += 1;
        let ok = match case.get("expect") {
            Some(e) => conforms(e, &got),
            None => true,
        };
        if let Some(w) = dumpw.as_mut() {
            let mut c = case.clone();
            c["argv_bytes"] = argv_json(&argv);
            c["got"] = got.clone();
            if o.class == "stdout" {
                c["got"]["text"] = J::String(o.text.clone());
            }
            writeln!(w, "{}", c).unwrap();
        }
        if !ok {
            bad += 1;
            let mut c = case.clone();
            c["def_full"] = b.def.clone();
            c["argv_bytes"] = argv_json(&argv);
            c["got"] = got;
            if o.class == "stdout" {
                c["got"]["text"] = J::String(o.text.clone());
            }
            writeln!(mm, "{}", c).unwrap();
        }
    }
    mm.flush().unwrap();
    if let Some(w) = dumpw.as_mut() {
        w.flush().unwrap();
    }
    println!("{}", json!({"cases":n,"mismatches":bad,"classes":classes}));
    0
}

/// C11: run cases through the real executable (`OptionParser::run()` in a child process) and record,
/// per run, the in-process prediction and the events observed from outside the process
fn cmd_proc(args: &[String]) -> i32 {
    use std::os::unix::ffi::OsStrExt;
    use std::os::unix::process::CommandExt;
    use std::process::{Command, Stdio};
    let defs = arg_val(args, "--defs").map(|p| load_defs(&p)).unwrap_or_default();
    let cases = arg_val(args, "--cases").expect("--cases");
    let out = arg_val(args, "--out").expect("--out");
    let app = arg_val(args, "--app").expect("--app");
    let mut cache = Cache::new(defs);
    let mut w = BufWriter::new(std::fs::File::create(&out).unwrap());
    let rd = BufReader::new(std::fs::File::open(&cases).unwrap());
    let arg0s: [&[u8]; 4] = [b"app", b"some/dir/app", b"./tool.v2", b"ap\xffp"];
    let mut n = 0u64;
    for (ix, l) in rd.lines().enumerate() {
        let l = l.unwrap();
        if l.trim().is_empty() {
            continue;
        }
        let case: J = serde_json::from_str(&l).expect("case json");
        let argv = if case.get("argv").is_some() {
            concretize(&case["argv"])
        } else {
            concretize(&case["line"])
        };
        let a0 = arg0s[case.get("arg0").and_then(J::as_u64).map(|x| x as usize).unwrap_or(ix) % arg0s.len()];
        // the documented rule: the program name is the file name of argv[0] (when it is UTF-8)
        let fname = a0.rsplit(|c| *c == b'/').next().unwrap();
        let name = std::str::from_utf8(fname).ok();
        let comp = case.get("comp").and_then(J::as_u64).map(|c| c as usize);
        let (b, _) = cache.get(&case);
        let b = match b {
            Ok(b) => b,
            Err(_) => continue,
        };
        let o = run(b, &argv, &RunOpts { name, comp: None });
        let pred = json!({"class": o.class, "text": o.text,
                          "vjson": o.value.as_ref().map(|v| v.to_string()).unwrap_or_default()});
        let mut cmd = Command::new(&app);
        cmd.arg0(std::ffi::OsStr::from_bytes(a0));
        cmd.args(&argv);
        let _ = comp;
        cmd.env_clear();
        cmd.env("BPAF_VERIF_DEF", b.def.to_string());
        cmd.stdin(Stdio::null());
        let res = cmd.output().expect("spawn harness-app");
        let mut events = vec![json!({"e":"spawn"})];
        let so = String::from_utf8_lossy(&res.stdout).to_string();
        let se = String::from_utf8_lossy(&res.stderr).to_string();
        if !so.is_empty() {
            events.push(json!({"e":"out","stream":"stdout","text":so}));
        }
        if !se.is_empty() {
            events.push(json!({"e":"out","stream":"stderr","text":se}));
        }
        if so.starts_with("BODY ") {
            events.push(json!({"e":"body"}));
        }
        events.push(json!({"e":"exit","code": res.status.code().unwrap_or(-1)}));
        writeln!(w, "{}", json!({"def": case["def"], "argv": argv_json(&argv), "arg0": enc(a0),
                                 "pred": pred, "events": events,
                                 "spec": case["expect"]["class"].as_str().unwrap_or("any"),
                                 "outside": case["outside"].as_bool().unwrap_or(false)})).unwrap();
        n += 1;
    }
    w.flush().unwrap();
    println!("{}", json!({"runs": n}));
    0
}

fn main() {
    std::panic::set_hook(Box::new(|_| {}));
    let args: Vec<String> = std::env::args().collect();
    let code = match args.get(1).map(|s| s.as_str()) {
        Some("replay") => cmd_replay(&args[2..]),
        Some("proc") => cmd_proc(&args[2..]),
        _ => {
            eprintln!("usage: harness replay --defs F --cases F --out F [--dump-obs F]");
            2
        }
    };
    std::process::exit(code);
}
