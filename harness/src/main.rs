fn main(){}
