use bpaf_verif_harness::obs::*;
use bpaf_verif_harness::val::enc;
use serde_json::{json, Value as J};
use std::collections::HashMap;
use std::io::{BufRead, BufReader, BufWriter, Write};

fn arg_val(args: &[String], k: &str) -> Option<String> {
    args.iter().position(|a| a == k).and_then(|i| args.get(i + 1).cloned())
}

pub fn load_defs(path: &str) -> HashMap<String, J> {
    let f = std::fs::File::open(path).unwrap_or_else(|e| panic!("open {}: {}", path, e));
    let mut m = HashMap::new();
    for l in BufReader::new(f).lines() {
        let l = l.unwrap();
        if l.trim().is_empty() {
            continue;
        }
        let d: J = serde_json::from_str(&l).expect("def json");
        m.insert(d["id"].as_str().expect("def id").to_string(), d);
    }
    m
}

pub struct Cache {
    defs: HashMap<String, J>,
    built: HashMap<String, Result<Built, String>>,
}
impl Cache {
    pub fn new(defs: HashMap<String, J>) -> Self {
        Cache {
            defs,
            built: HashMap::new(),
        }
    }
    pub fn get(&mut self, case: &J) -> (&Result<Built, String>, String) {
        let (key, def) = match &case["def"] {
            J::String(id) => (
                id.clone(),
                self.defs
                    .get(id)
                    .unwrap_or_else(|| panic!("unknown def {}", id))
                    .clone(),
            ),
            d @ J::Object(_) => (d.to_string(), d.clone()),
            _ => panic!("case without def"),
        };
        if !self.built.contains_key(&key) {
            self.built.insert(key.clone(), build(&def));
        }
        (self.built.get(&key).unwrap(), key)
    }
}

/// replay specification-generated (or driver-generated) cases into the real parser
fn cmd_replay(args: &[String]) -> i32 {
    let defs = arg_val(args, "--defs").map(|p| load_defs(&p)).unwrap_or_default();
    let cases = arg_val(args, "--cases").expect("--cases");
    let out = arg_val(args, "--out").expect("--out");
    let dump = arg_val(args, "--dump-obs");
    let mut hooks = arg_val(args, "--hooks").map(|p| BufWriter::new(std::fs::File::create(p).unwrap()));
    let hooks_every: u64 = arg_val(args, "--hooks-every").map(|x| x.parse().unwrap()).unwrap_or(1);
    let mut cache = Cache::new(defs);
    let mut mm = BufWriter::new(std::fs::File::create(&out).unwrap());
    let mut dumpw = dump.map(|p| BufWriter::new(std::fs::File::create(p).unwrap()));
    let rd: Box<dyn BufRead> = if cases == "-" {
        Box::new(BufReader::new(std::io::stdin()))
    } else {
        Box::new(BufReader::new(std::fs::File::open(&cases).unwrap()))
    };
    let (mut n, mut bad) = (0u64, 0u64);
    let mut classes: HashMap<String, u64> = HashMap::new();
    for l in rd.lines() {
        let l = l.unwrap();
        if l.trim().is_empty() {
            continue;
        }
        let case: J = serde_json::from_str(&l).expect("case json");
        let argv = if case.get("argv").is_some() {
            concretize(&case["argv"])
        } else {
            concretize(&case["line"])
        };
        let mut argv = argv;
        if let Some(p) = case.get("partial").and_then(J::as_str) {
            argv.push(bpaf_verif_harness::build::os(&bpaf_verif_harness::val::dec(p)));
        }
        let _env = EnvGuard::apply(case.get("env"));
        let (b, _) = cache.get(&case);
        let b = match b {
            Ok(b) => b,
            Err(e) => {
                writeln!(mm, "{}", json!({"case":case,"build_panic":e})).unwrap();
                bad += 1;
                continue;
            }
        };
        let comp = case.get("comp").and_then(J::as_u64).map(|c| c as usize);
        #[cfg(bpaf_verif)]
        let record = hooks.is_some() && n % hooks_every == 0;
        #[cfg(bpaf_verif)]
        if record {
            bpaf::verif::start();
        }
        let o = run(
            b,
            &argv,
            &RunOpts {
                name: Some(APP),
                comp,
            },
        );
        #[cfg(bpaf_verif)]
        if let (Some(h), true) = (hooks.as_mut(), record) {
            for e in bpaf::verif::take() {
                writeln!(h, "{}", e).unwrap();
            }
            writeln!(h, "{}", json!({"e":"end","class":o.class,"run":n})).unwrap();
        }
        let got = project(&b.def, &o);
        n += 1;
        *classes.entry(o.class.to_string()).or_default() += 1;
        let ok = match case.get("expect") {
            Some(e) => conforms(e, &got),
            None => true,
        };
        if let Some(w) = dumpw.as_mut() {
            let mut c = case.clone();
            c["argv_bytes"] = argv_json(&argv);
            c["got"] = got.clone();
            if o.class == "stdout" {
                c["got"]["text"] = J::String(o.text.clone());
            }
            writeln!(w, "{}", c).unwrap();
        }
        if !ok {
            bad += 1;
            let mut c = case.clone();
            c["def_full"] = b.def.clone();
            c["argv_bytes"] = argv_json(&argv);
            c["got"] = got;
            if o.class == "stdout" {
                c["got"]["text"] = J::String(o.text.clone());
            }
            writeln!(mm, "{}", c).unwrap();
        }
    }
    mm.flush().unwrap();
    if let Some(w) = dumpw.as_mut() {
        w.flush().unwrap();
    }
    if let Some(h) = hooks.as_mut() {
        h.flush().unwrap();
    }
    println!("{}", json!({"cases":n,"mismatches":bad,"classes":classes}));
    0
}

/// C11: run cases through the real executable (`OptionParser::run()` in a child process) and record,
/// per run, the in-process prediction and the events observed from outside the process
fn cmd_proc(args: &[String]) -> i32 {
    use std::os::unix::ffi::OsStrExt;
    use std::os::unix::process::CommandExt;
    use std::process::{Command, Stdio};
    let defs = arg_val(args, "--defs").map(|p| load_defs(&p)).unwrap_or_default();
    let cases = arg_val(args, "--cases").expect("--cases");
    let out = arg_val(args, "--out").expect("--out");
    let app = arg_val(args, "--app").expect("--app");
    let mut cache = Cache::new(defs);
    let mut w = BufWriter::new(std::fs::File::create(&out).unwrap());
    let rd = BufReader::new(std::fs::File::open(&cases).unwrap());
    let arg0s: [&[u8]; 7] = [b"app", b"some/dir/app", b"./tool.v2", b"ap\xffp", b"d\xffr/app", b"some/dir/app/", b""];
    let mut n = 0u64;
    for (ix, l) in rd.lines().enumerate() {
        let l = l.unwrap();
        if l.trim().is_empty() {
            continue;
        }
        let case: J = serde_json::from_str(&l).expect("case json");
        let argv = if case.get("argv").is_some() {
            concretize(&case["argv"])
        } else {
            concretize(&case["line"])
        };
        let a0 = arg0s[case.get("arg0").and_then(J::as_u64).map(|x| x as usize).unwrap_or(ix) % arg0s.len()];
        // the documented rule: the program name is the file name of argv[0] (when it is UTF-8)
        // (`Path::file_name`: directories - also ones that are not text - and a trailing separator do not matter)
        let name = std::path::Path::new(std::ffi::OsStr::from_bytes(a0)).file_name().and_then(|f| f.to_str());
        let comp = case.get("comp").and_then(J::as_u64).map(|c| c as usize);
        let (b, _) = cache.get(&case);
        let b = match b {
            Ok(b) => b,
            Err(_) => continue,
        };
        let o = run(b, &argv, &RunOpts { name, comp: None });
        let pred = json!({"class": o.class, "text": o.text,
                          "vjson": o.value.as_ref().map(|v| v.to_string()).unwrap_or_default()});
        let mut cmd = Command::new(&app);
        cmd.arg0(std::ffi::OsStr::from_bytes(a0));
        cmd.args(&argv);
        let _ = comp;
        cmd.env_clear();
        cmd.env("BPAF_VERIF_DEF", b.def.to_string());
        cmd.stdin(Stdio::null());
        let res = cmd.output().expect("spawn harness-app");
        let mut events = vec![json!({"e":"spawn"})];
        let so = String::from_utf8_lossy(&res.stdout).to_string();
        let se = String::from_utf8_lossy(&res.stderr).to_string();
        if !so.is_empty() {
            events.push(json!({"e":"out","stream":"stdout","text":so}));
        }
        if !se.is_empty() {
            events.push(json!({"e":"out","stream":"stderr","text":se}));
        }
        if so.starts_with("BODY ") {
            events.push(json!({"e":"body"}));
        }
        events.push(json!({"e":"exit","code": res.status.code().unwrap_or(-1)}));
        writeln!(w, "{}", json!({"def": case["def"], "argv": argv_json(&argv), "arg0": enc(a0),
                                 "pred": pred, "events": events,
                                 "spec": case["expect"]["class"].as_str().unwrap_or("any"),
                                 "outside": case["outside"].as_bool().unwrap_or(false)})).unwrap();
        n += 1;
    }
    w.flush().unwrap();
    println!("{}", json!({"runs": n}));
    0
}

fn tokens_of(text: &str) -> Vec<String> {
    // de-markup: roff escapes, then split on everything that cannot be part of a name/metavar/help token
    let t = text
        .replace("\\-", "-")
        .replace("\\fB", " ")
        .replace("\\fI", " ")
        .replace("\\fR", " ")
        .replace("\\fP", " ")
        .replace("\\&", "");
    t.split(|c: char| !(c.is_ascii_alphanumeric() || c == '_' || c == '-'))
        .filter(|x| !x.is_empty())
        .map(|x| x.to_string())
        .collect()
}

/// HTML text -> tag events; a `<` that does not begin a well-formed tag is a "stray" event
fn html_events(text: &str) -> Vec<J> {
    let b = text.as_bytes();
    let mut ev = Vec::new();
    let mut i = 0;
    while i < b.len() {
        if b[i] != b'<' {
            i += 1;
            continue;
        }
        let rest = &text[i + 1..];
        let end = rest.find('>');
        let ok = end.and_then(|e| {
            let inner = &rest[..e];
            if inner.contains('<') || inner.contains('\n') {
                return None;
            }
            let (closing, body) = match inner.strip_prefix('/') {
                Some(x) => (true, x),
                None => (false, inner),
            };
            let name: String = body.chars().take_while(|c| c.is_ascii_alphanumeric()).collect();
            if name.is_empty() {
                return None;
            }
            let attr = body[name.len()..].trim().to_string();
            if closing && !attr.is_empty() {
                return None;
            }
            Some((closing, name, attr, e))
        });
        match ok {
            Some((closing, name, attr, e)) => {
                let kind = if closing { "close" } else if name == "br" { "void" } else { "open" };
                ev.push(json!({"e": kind, "tag": name, "attr": attr}));
                i += e + 2;
            }
            None => {
                ev.push(json!({"e": "stray", "tag": "", "attr": "", "at": i}));
                i += 1;
            }
        }
    }
    ev.push(json!({"e":"eof"}));
    ev
}

/// manpage text -> one event per line: control lines with their request and the escape sequences
/// they contain, text lines with their escape sequences
fn roff_events(text: &str) -> Vec<J> {
    fn escapes(s: &str) -> Vec<String> {
        let c: Vec<char> = s.chars().collect();
        let mut out = Vec::new();
        let mut i = 0;
        while i < c.len() {
            if c[i] == '\\' {
                let take = match c.get(i + 1) {
                    Some('f') => 3,
                    Some('*') => 5,
                    Some('(') => 4,
                    Some(_) => 2,
                    None => 1,
                };
                let e: String = c[i..(i + take).min(c.len())].iter().collect();
                out.push(e);
                i += take;
            } else {
                i += 1;
            }
        }
        out
    }
    let mut ev = Vec::new();
    for line in text.split('\n') {
        if line.starts_with('.') || line.starts_with('\'') {
            let req = line.split_whitespace().next().unwrap_or("").to_string();
            let args = &line[req.len()..];
            ev.push(json!({"e":"ctl","req":req,"line":line,"esc":escapes(args)}));
        } else {
            ev.push(json!({"e":"text","req":"","line":"","esc":escapes(line)}));
        }
    }
    ev.push(json!({"e":"eof"}));
    ev
}

/// the spelling of the help flag at the command level reached by `path`
fn help_name_at(def: &J, path: &[String]) -> String {
    let mut level = def;
    for p in path {
        if let Some(cmds) = level["tail"]["cmds"].as_array() {
            if let Some(c) = cmds.iter().find(|c| c["names"][0].as_str() == Some(p.as_str())) {
                level = &c["level"];
            }
        }
    }
    level["help_names"].as_array().and_then(|a| a.last()).and_then(J::as_str).unwrap_or("--help").to_string()
}

fn all_paths(level: &J, prefix: &mut Vec<String>, out: &mut Vec<Vec<String>>) {
    out.push(prefix.clone());
    if level["tail"]["kind"] == "cmd" {
        for c in level["tail"]["cmds"].as_array().unwrap() {
            prefix.push(c["names"][0].as_str().unwrap().to_string());
            all_paths(&c["level"], prefix, out);
            prefix.pop();
        }
    }
}

/// does the path lead through a command under `hide`?
fn path_hidden(level: &J, path: &[String]) -> bool {
    let mut lvl = level;
    for name in path {
        let Some(c) = lvl["tail"]["cmds"].as_array().and_then(|cs| cs.iter().find(|c| c["names"][0] == name.as_str())) else {
            return false;
        };
        if c["hidden"].as_bool().unwrap_or(false) {
            return true;
        }
        lvl = &c["level"];
    }
    false
}

/// C12/C16: render help of every command level and the three documentation formats, as token records
fn cmd_render(args: &[String]) -> i32 {
    let defs_path = arg_val(args, "--defs").expect("--defs");
    let out = arg_val(args, "--out").expect("--out");
    let docs = args.iter().any(|a| a == "--docs");
    let rd = BufReader::new(std::fs::File::open(&defs_path).unwrap());
    let mut w = BufWriter::new(std::fs::File::create(&out).unwrap());
    let mut n = 0u64;
    for l in rd.lines() {
        let l = l.unwrap();
        if l.trim().is_empty() {
            continue;
        }
        let def: J = serde_json::from_str(&l).unwrap();
        let b = match build(&def) {
            Ok(b) => b,
            Err(e) => {
                writeln!(w, "{}", json!({"def": def["id"], "kind":"build_panic", "text": e})).unwrap();
                continue;
            }
        };
        let mut paths = Vec::new();
        all_paths(&def, &mut Vec::new(), &mut paths);
        for p in &paths {
            let mut argv: Vec<std::ffi::OsString> = p.iter().map(|x| x.into()).collect();
            argv.push(help_name_at(&def, p).into());
            let o = run(&b, &argv, &RunOpts { name: Some(APP), comp: None });
            let mut order = json!({"descr":0,"usage":0,"header":0,"items":0,"footer":0});
            let mut items: Vec<String> = Vec::new();
            for (i, line) in o.text.lines().enumerate() {
                let ln = i + 1;
                let mut set = |k: &str| {
                    if order[k] == 0 {
                        order[k] = json!(ln);
                    }
                };
                if line.contains("DESCR-") {
                    set("descr");
                }
                if line.starts_with("Usage:") {
                    set("usage");
                }
                if line.contains("HEADER-") {
                    set("header");
                }
                if line.contains("FOOTER-") {
                    set("footer");
                }
                if line.starts_with("    ") {
                    set("items");
                    items.extend(tokens_of(line));
                }
            }
            writeln!(w, "{}", json!({"def": def["id"], "path": p, "kind": "help", "class": o.class,
                "items": items, "all": tokens_of(&o.text), "order": order, "text": o.text})).unwrap();
            n += 1;
        }
        #[cfg(feature = "docgen")]
        if docs {
            use std::panic::{catch_unwind, AssertUnwindSafe};
            for kind in ["markdown", "html", "manpage"] {
                let r = catch_unwind(AssertUnwindSafe(|| match kind {
                    "markdown" => b.parser.render_markdown(APP),
                    "html" => b.parser.render_html(APP),
                    _ => b.parser.render_manpage(APP, bpaf::doc::Section::General, None, None, None),
                }));
                match r {
                    Ok(text) => {
                        let toks = tokens_of(&text);
                        let events = match kind {
                            "html" => html_events(&text),
                            "manpage" => roff_events(&text),
                            _ => vec![],
                        };
                        writeln!(w, "{}", json!({"def": def["id"], "path": [], "kind": format!("{}-events", kind),
                            "class": "doc", "events": events})).unwrap();
                        // (the documentation describes the levels reachable through visible commands)
                        for p in paths.iter().filter(|p| !path_hidden(&def, p)) {
                            writeln!(w, "{}", json!({"def": def["id"], "path": p, "kind": kind, "class": "doc",
                                "items": [], "all": toks, "order": {"descr":0,"usage":0,"header":0,"items":0,"footer":0},
                                "text": if p.is_empty() { text.clone() } else { String::new() }})).unwrap();
                            n += 1;
                        }
                    }
                    Err(e) => {
                        writeln!(w, "{}", json!({"def": def["id"], "path": [], "kind": kind, "class": "panic",
                            "items": [], "all": [], "order": {"descr":0,"usage":0,"header":0,"items":0,"footer":0},
                            "text": panic_text(&e)})).unwrap();
                        n += 1;
                    }
                }
            }
        }
        let _ = docs;
    }
    w.flush().unwrap();
    println!("{}", json!({"records": n}));
    0
}

/// C13: render the Doc of help / error outcomes at many widths; per rendering, the lines as
/// (indent, [(gap, word length)]) events plus the text with all whitespace removed
fn cmd_wrap(args: &[String]) -> i32 {
    use bpaf::ParseFailure;
    let defs_path = arg_val(args, "--defs").expect("--defs");
    let out = arg_val(args, "--out").expect("--out");
    let widths: Vec<usize> = arg_val(args, "--widths").expect("--widths").split(',').map(|x| x.parse().unwrap()).collect();
    // widths at which the rendered text itself is recorded (compared with what a real process prints under `max_width`)
    let text_widths: Vec<usize> = arg_val(args, "--text-widths").map(|x| x.split(',').filter(|y| !y.is_empty()).map(|y| y.parse().unwrap()).collect()).unwrap_or_default();
    let rd = BufReader::new(std::fs::File::open(&defs_path).unwrap());
    let mut w = BufWriter::new(std::fs::File::create(&out).unwrap());
    let strip = |t: &str| -> String { t.chars().filter(|c| !c.is_whitespace()).collect() };
    let mut n = 0u64;
    for l in rd.lines() {
        let l = l.unwrap();
        if l.trim().is_empty() {
            continue;
        }
        let def: J = serde_json::from_str(&l).unwrap();
        let b = match build(&def) {
            Ok(b) => b,
            Err(_) => continue,
        };
        let mut paths = Vec::new();
        all_paths(&def, &mut Vec::new(), &mut paths);
        let mut lines: Vec<(String, Vec<String>)> = Vec::new();
        for p in &paths {
            let mut a = p.clone();
            a.push(help_name_at(&def, p));
            lines.push((format!("help:{}", p.join("/")), a));
        }
        lines.push(("err:unknown".into(), vec!["--zzunknownflag".into()]));
        lines.push(("err:empty".into(), vec![]));
        lines.push(("err:word".into(), vec!["surplusword".into(), "another".into()]));
        for (docid, argv) in lines {
            let argv: Vec<std::ffi::OsString> = argv.iter().map(|x| x.into()).collect();
            let r = std::panic::catch_unwind(std::panic::AssertUnwindSafe(|| {
                b.parser.run_inner(bpaf::Args::from(argv.as_slice()).set_name(APP))
            }));
            let doc = match r {
                Ok(Err(ParseFailure::Stdout(d, _))) | Ok(Err(ParseFailure::Stderr(d))) => d,
                Ok(_) => continue,
                Err(e) => {
                    writeln!(w, "{}", json!({"def": def["id"], "doc": docid, "width": 0, "panic": panic_text(&e)})).unwrap();
                    continue;
                }
            };
            let render = |wd: usize| std::panic::catch_unwind(std::panic::AssertUnwindSafe(|| format!("{:w$}", doc, w = wd)));
            let reference = match render(60000) {
                Ok(t) => t,
                Err(e) => {
                    writeln!(w, "{}", json!({"def": def["id"], "doc": docid, "width": 60000, "panic": panic_text(&e)})).unwrap();
                    continue;
                }
            };
            let ref_lines: std::collections::HashSet<&str> = reference.lines().collect();
            let refs = strip(&reference);
            // the short form (first paragraph of every help text only)
            match std::panic::catch_unwind(std::panic::AssertUnwindSafe(|| (doc.monochrome(false), doc.monochrome(true)))) {
                Ok((short, full)) => writeln!(w, "{}", json!({"def": def["id"], "doc": docid, "kind": "short", "width": 100,
                    "short": tokens_of(&short), "full": tokens_of(&full)})).unwrap(),
                // a panic of the code under test is an observed outcome, not a tool failure
                Err(e) => writeln!(w, "{}", json!({"def": def["id"], "doc": docid, "width": 100, "panic": panic_text(&e)})).unwrap(),
            }
            for &wd in &widths {
                let text = match render(wd) {
                    Ok(t) => t,
                    Err(e) => {
                        writeln!(w, "{}", json!({"def": def["id"], "doc": docid, "width": wd, "panic": panic_text(&e)})).unwrap();
                        continue;
                    }
                };
                let mut evs = Vec::new();
                for line in text.lines() {
                    let chars: Vec<char> = line.chars().collect();
                    let indent = chars.iter().take_while(|c| **c == ' ').count();
                    let mut toks = Vec::new();
                    let mut i = indent;
                    let mut gap = 0usize;
                    while i < chars.len() {
                        if chars[i] == ' ' {
                            gap += 1;
                            i += 1;
                        } else {
                            let st = i;
                            while i < chars.len() && chars[i] != ' ' {
                                i += 1;
                            }
                            toks.push(json!({"g": gap, "w": i - st}));
                            gap = 0;
                        }
                    }
                    evs.push(json!({"indent": indent, "toks": toks, "code": ref_lines.contains(line), "len": chars.len()}));
                }
                let mut rec = json!({"def": def["id"], "doc": docid, "kind": "wrap", "width": wd,
                    "refs": refs, "got": strip(&text), "lines": evs});
                if text_widths.contains(&wd) && docid.starts_with("help") {
                    rec["text"] = J::String(text.clone());
                }
                writeln!(w, "{}", rec).unwrap();
                n += 1;
            }
        }
    }
    w.flush().unwrap();
    println!("{}", json!({"renderings": n}));
    0
}

fn chars_json(t: &str) -> J {
    J::Array(t.chars().map(|c| J::String(c.to_string())).collect())
}

/// C15: completion output of the real shells' revisions next to the candidates computed at revision 0
fn cmd_shell(args: &[String]) -> i32 {
    let defs = arg_val(args, "--defs").map(|p| load_defs(&p)).unwrap_or_default();
    let cases = arg_val(args, "--cases").expect("--cases");
    let out = arg_val(args, "--out").expect("--out");
    let mut cache = Cache::new(defs);
    let mut w = BufWriter::new(std::fs::File::create(&out).unwrap());
    let rd = BufReader::new(std::fs::File::open(&cases).unwrap());
    let mut n = 0u64;
    for l in rd.lines() {
        let l = l.unwrap();
        if l.trim().is_empty() {
            continue;
        }
        let case: J = serde_json::from_str(&l).unwrap();
        let argv = concretize(&case["argv"]);
        let (b, _) = cache.get(&case);
        let b = match b {
            Ok(b) => b,
            Err(_) => continue,
        };
        let r0 = run(b, &argv, &RunOpts { name: Some(APP), comp: Some(0) });
        if r0.class != "completion" {
            writeln!(w, "{}", json!({"def": case["def"], "argv": case["argv"], "shell": "rev0", "class": r0.class, "text": r0.text})).unwrap();
            continue;
        }
        // candidates and shell completers at revision 0
        let mut items: Vec<(String, String, String)> = Vec::new();
        let mut nfiles = 0;
        let mut echo: Option<String> = None;
        let mut multiline = argv.last().map_or(false, |a| a.to_string_lossy().contains('\n'));
        let has_ops = r0.text.contains("{ mask") || r0.text.contains("Nothing") || r0.text.contains("Raw {");
        if !r0.text.contains('\t') && !has_ops {
            if r0.text.ends_with('\n') {
                echo = Some(r0.text[..r0.text.len() - 1].to_string());
            } else {
                items.push((r0.text.clone(), r0.text.clone(), String::new()));
            }
        } else {
            let mut in_ops = false;
            for line in r0.text.split('\n') {
                if in_ops {
                    if line.starts_with("File") || line.starts_with("Dir") {
                        nfiles += 1;
                    }
                } else if line.is_empty() {
                    in_ops = true;
                } else if !line.contains('\t') {
                    multiline = true; // continuation of a help text that contains a line break
                } else {
                    let f: Vec<&str> = line.split('\t').collect();
                    items.push((f[0].to_string(), f.get(1).unwrap_or(&"").to_string(), f.get(2).unwrap_or(&"").to_string()));
                }
            }
        }
        for (rev, shell) in [(1usize, "elvish"), (7, "zsh"), (8, "bash"), (9, "fish")] {
            for named in [true, false] {
                let o = run(b, &argv, &RunOpts { name: if named { Some(APP) } else { None }, comp: Some(rev) });
                let mut its: Vec<J> = items.iter().map(|(s1, p1, _)| json!({"subst": chars_json(s1), "pretty": chars_json(p1)})).collect();
                if let (Some(e), true) = (&echo, shell != "elvish") {
                    its = vec![json!({"subst": chars_json(e), "pretty": chars_json(e)})];
                }
                let mut groups: Vec<J> = Vec::new();
                for (_, _, g) in &items {
                    if !g.is_empty() && !groups.contains(&chars_json(g)) {
                        groups.push(chars_json(g));
                    }
                }
                let lines: Vec<J> = o.text.split('\n').collect::<Vec<_>>().split_last().map(|(_, x)| x.to_vec()).unwrap_or_default()
                    .iter().map(|ln| J::Array(ln.split('\t').map(chars_json).collect())).collect();
                writeln!(w, "{}", json!({"def": case["def"], "argv": case["argv"], "shell": shell, "rev": rev, "named": named,
                    "class": o.class, "text": o.text, "chars": chars_json(&o.text), "lines": lines,
                    "items": its, "groups": groups, "nfiles": nfiles, "multiline": multiline})).unwrap();
                n += 1;
            }
        }
    }
    w.flush().unwrap();
    println!("{}", json!({"outputs": n}));
    0
}

fn fnv(s: &str) -> String {
    let mut h: u64 = 0xcbf29ce484222325;
    for b in s.as_bytes() {
        h ^= *b as u64;
        h = h.wrapping_mul(0x100000001b3);
    }
    format!("{:016x}", h)
}

/// C04: sessions of calls on one OptionParser object.  Every call is announced (BEGIN) before it is
/// made and reported (END) after it returned, so that the watching parent can tell a hang or a
/// process exit from a result.
fn cmd_session(args: &[String]) -> i32 {
    let path = arg_val(args, "--sessions").expect("--sessions");
    let start: usize = arg_val(args, "--start").map(|x| x.parse().unwrap()).unwrap_or(0);
    let rd = BufReader::new(std::fs::File::open(&path).unwrap());
    let out = std::io::stdout();
    for (si, l) in rd.lines().enumerate() {
        let l = l.unwrap();
        if si < start || l.trim().is_empty() {
            continue;
        }
        let sess: J = serde_json::from_str(&l).unwrap();
        let mut o = out.lock();
        writeln!(o, "SESSION {}", si).unwrap();
        o.flush().unwrap();
        // the session's environment: set before anything runs, the same for every call
        let _env = EnvGuard::apply(sess.get("env"));
        let b = match build(&sess["def"]) {
            Ok(b) => b,
            Err(e) => {
                writeln!(o, "SKIP {} build: {}", si, e.replace('\n', " ")).unwrap();
                continue;
            }
        };
        // invariant filter: bpaf documents that help generation panics unless check_invariants holds
        let probe = run(&b, &["--help".into()], &RunOpts { name: Some(APP), comp: None });
        if probe.class == "panic" && probe.text.contains("bpaf usage BUG") {
            writeln!(o, "SKIP {} invariants: {}", si, probe.text.replace('\n', " ")).unwrap();
            continue;
        }
        for (k, call) in sess["calls"].as_array().unwrap().iter().enumerate() {
            writeln!(o, "BEGIN {} {}", si, k).unwrap();
            o.flush().unwrap();
            let op = call["op"].as_str().unwrap();
            let (class, text) = match op {
                "doc" => {
                    #[cfg(feature = "docgen")]
                    {
                        let r = std::panic::catch_unwind(std::panic::AssertUnwindSafe(|| match call["fmt"].as_str().unwrap() {
                            "markdown" => b.parser.render_markdown(APP),
                            "html" => b.parser.render_html(APP),
                            _ => b.parser.render_manpage(APP, bpaf::doc::Section::General, None, None, None),
                        }));
                        match r {
                            Ok(t) => ("doc".to_string(), t),
                            Err(e) => ("panic".to_string(), panic_text(&e)),
                        }
                    }
                    #[cfg(not(feature = "docgen"))]
                    {
                        ("doc".to_string(), String::new())
                    }
                }
                _ => {
                    let argv = concretize(&call["argv"]);
                    let named = call["named"].as_bool().unwrap_or(true);
                    let comp = call.get("rev").and_then(J::as_u64).map(|x| x as usize);
                    let r = run(&b, &argv, &RunOpts { name: if named { Some(APP) } else { None }, comp });
                    let t = match r.class {
                        "ok" => r.value.clone().map(|v| v.to_string()).unwrap_or_default(),
                        _ => r.text.clone(),
                    };
                    // the outcome is a function of the vector, not of the way it is handed over: when every
                    // argument is text the `&[&str]` and `&[String]` entry points must give the same outcome
                    let mut class = r.class.to_string();
                    if op == "parse" && comp.is_none() {
                        if let Some(strs) = argv.iter().map(|a| a.to_str().map(str::to_string)).collect::<Option<Vec<String>>>() {
                            let refs: Vec<&str> = strs.iter().map(String::as_str).collect();
                            for variant in 0..2 {
                                let alt = std::panic::catch_unwind(std::panic::AssertUnwindSafe(|| {
                                    let a = if variant == 0 { bpaf::Args::from(refs.as_slice()) } else { bpaf::Args::from(strs.as_slice()) };
                                    let a = if named { a.set_name(APP) } else { a };
                                    match b.parser.run_inner(a) {
                                        Ok(v) => ("ok", v.to_json().to_string()),
                                        Err(bpaf::ParseFailure::Stdout(d, full)) => ("stdout", d.monochrome(full)),
                                        Err(bpaf::ParseFailure::Stderr(d)) => ("stderr", d.monochrome(true)),
                                        Err(bpaf::ParseFailure::Completion(c)) => ("completion", c),
                                    }
                                }));
                                match alt {
                                    Ok((c, tt)) if c == r.class && tt == t => {}
                                    _ => class = "apidiff".to_string(),
                                }
                            }
                        }
                    }
                    (class, t)
                }
            };
            writeln!(o, "END {} {} {} {} {}", si, k, class, fnv(&text), text.chars().take(120).collect::<String>().replace('\n', "|")).unwrap();
            o.flush().unwrap();
        }
    }
    0
}

/// C02: the tokeniser in isolation - argument vectors given as byte arrays, the items bpaf produced for them
/// (construct hook) written next to the declared short flags / arguments
#[cfg(bpaf_verif)]
fn cmd_tokens(args: &[String]) -> i32 {
    let def_path = arg_val(args, "--def").expect("--def");
    let argvs = arg_val(args, "--argvs").expect("--argvs");
    let out = arg_val(args, "--out").expect("--out");
    let def: J = serde_json::from_str(&std::fs::read_to_string(def_path).unwrap()).unwrap();
    let b = build(&def).expect("definition builds");
    let mut w = BufWriter::new(std::fs::File::create(&out).unwrap());
    let mut n = 0u64;
    for l in BufReader::new(std::fs::File::open(&argvs).unwrap()).lines() {
        let l = l.unwrap();
        if l.trim().is_empty() {
            continue;
        }
        let av: Vec<Vec<u8>> = serde_json::from_str(&l).unwrap();
        let argv: Vec<std::ffi::OsString> = av.iter().map(|x| bpaf_verif_harness::build::os(x)).collect();
        bpaf::verif::start();
        let _ = run(&b, &argv, &RunOpts { name: Some(APP), comp: None });
        let evs = bpaf::verif::take();
        for e in evs {
            if e.starts_with("{\"e\":\"tokens\"") {
                let ev: J = serde_json::from_str(&e).unwrap();
                writeln!(w, "{}", json!({"argv": av, "flags": ev["flags"], "args": ev["args"], "toks": ev["items"], "amb": ev["amb"]})).unwrap();
                n += 1;
                break;
            }
        }
    }
    w.flush().unwrap();
    println!("{}", json!({"vectors": n}));
    0
}

fn main() {
    std::panic::set_hook(Box::new(|_| {}));
    let args: Vec<String> = std::env::args().collect();
    let code = match args.get(1).map(|s| s.as_str()) {
        Some("replay") => cmd_replay(&args[2..]),
        Some("proc") => cmd_proc(&args[2..]),
        Some("render") => cmd_render(&args[2..]),
        Some("wrap") => cmd_wrap(&args[2..]),
        Some("shell") => cmd_shell(&args[2..]),
        Some("session") => cmd_session(&args[2..]),
        #[cfg(bpaf_verif)]
        Some("tokens") => cmd_tokens(&args[2..]),
        _ => {
            eprintln!("usage: harness replay --defs F --cases F --out F [--dump-obs F]");
            2
        }
    };
    std::process::exit(code);
}
