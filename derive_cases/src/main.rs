//! C17: run the derived parser of every generated type next to the hand-written combinator
//! equivalent (built by the dynamic builder from the definition TLC derived with Derive.tla)
//! on specification-generated command lines; report every difference.
mod generated;
use bpaf_verif_harness::obs::*;
use serde_json::{json, Value as J};
use std::collections::HashMap;
use std::io::{BufRead, BufReader, BufWriter, Write};

fn observe(r: Result<bpaf_verif_harness::val::Val, bpaf::ParseFailure>) -> J {
    match r {
        Ok(v) => json!({"class":"ok","value":v.to_json()}),
        Err(bpaf::ParseFailure::Stdout(d, full)) => json!({"class":"stdout","text":d.monochrome(full)}),
        Err(bpaf::ParseFailure::Stderr(d)) => json!({"class":"stderr","text":d.monochrome(true)}),
        Err(bpaf::ParseFailure::Completion(s)) => json!({"class":"completion","text":s}),
    }
}

fn main() {
    if std::env::var("VERIF_PANICS").is_err() {
        std::panic::set_hook(Box::new(|_| {}));
    }
    let args: Vec<String> = std::env::args().collect();
    let defs_path = &args[1];
    let cases_path = &args[2];
    let out_path = &args[3];
    let mut defs: HashMap<String, J> = HashMap::new();
    for l in BufReader::new(std::fs::File::open(defs_path).unwrap()).lines() {
        let d: J = serde_json::from_str(&l.unwrap()).unwrap();
        defs.insert(d["id"].as_str().unwrap().to_string(), d);
    }
    let mut built: HashMap<String, Built> = HashMap::new();
    let mut w = BufWriter::new(std::fs::File::create(out_path).unwrap());
    let (mut n, mut diff) = (0u64, 0u64);
    for l in BufReader::new(std::fs::File::open(cases_path).unwrap()).lines() {
        let l = l.unwrap();
        if l.trim().is_empty() {
            continue;
        }
        let case: J = serde_json::from_str(&l).unwrap();
        let id = case["def"].as_str().unwrap().to_string();
        let argv = if case.get("argv").is_some() { concretize(&case["argv"]) } else { concretize(&case["line"]) };
        if !built.contains_key(&id) {
            built.insert(id.clone(), build(&defs[&id]).expect("hand-written equivalent must build"));
        }
        let hand = {
            let o = run(&built[&id], &argv, &RunOpts { name: Some(APP), comp: None });
            match o.class {
                "ok" => json!({"class":"ok","value":o.value}),
                c => json!({"class":c,"text":o.text}),
            }
        };
        let runner = generated::derived(&id).expect("derived type");
        let der = match std::panic::catch_unwind(std::panic::AssertUnwindSafe(|| observe(runner(&argv)))) {
            Ok(j) => j,
            Err(e) => json!({"class":"panic","text":panic_text(&e)}),
        };
        n += 1;
        let spec_ok = match case.get("expect") {
            Some(e) if !case["outside"].as_bool().unwrap_or(false) => e["class"] == der["class"] && (e["class"] != "ok" || e["value"] == der["value"]),
            _ => true,
        };
        if hand != der || !spec_ok {
            diff += 1;
            writeln!(w, "{}", json!({"def": id, "argv_bytes": argv_json(&argv), "line": case.get("line"), "derived": der, "handwritten": hand,
                                     "expect": case.get("expect"), "differ": hand != der, "spec_ok": spec_ok})).unwrap();
        }
    }
    w.flush().unwrap();
    println!("{}", json!({"cases": n, "differences": diff}));
}
